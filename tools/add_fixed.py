#!/usr/bin/env python3
# add_fixed.py ID PROPERTY COMMIT WHAT INPUT : appends a fixed entry to known_findings.json (development time only)
import json,sys
id,prop,commit,what,inp=sys.argv[1:6]
k=json.load(open('/verif/known_findings.json'))
assert not any(f['id']==id for f in k['findings'])
k['findings'].append({"id":id,"property":prop,"status":"fixed","commit":commit,"what":what,"input":inp,
  "record":"fixed: property=%s %s %s"%(prop,commit,what)})
json.dump(k,open('/verif/known_findings.json','w'),indent=1,ensure_ascii=False); open('/verif/known_findings.json','a').write('\n')
