#!/bin/bash
# run_all.sh [quick|thorough] [ids...]: runs the checks one after the other against /repo and summarises
TIER=${1:-quick}; shift
IDS=${@:-C01 C02 C03 C04 C05 C06 C07 C08 C09 C10 C11 C12 C13 C14 C15 C16 C17 C18}
mkdir -p /tmp/runall
for id in $IDS; do
  start=$(date +%s)
  (cd /verif && ./bin/verifctl check $id --tier $TIER) > /tmp/runall/$id.$TIER.log 2>&1
  rc=$?
  echo "$id exit=$rc $(( $(date +%s) - start ))s $(grep -E '^RESULT' /tmp/runall/$id.$TIER.log | cut -c1-160) $(grep -c '^KNOWN-FINDING' /tmp/runall/$id.$TIER.log) known"
done
