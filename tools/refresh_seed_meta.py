#!/usr/bin/env python3
"""refresh_seed_meta.py <name> [note]: re-reads /tmp/seed-results/<name>.txt (a re-confirmation run of a seed that is
already in /verif/seeded, e.g. after its patch was rebased onto a repaired tree) into its meta.json."""
import json, re, sys
name = sys.argv[1]; note = sys.argv[2] if len(sys.argv) > 2 else ""
res = open('/tmp/seed-results/%s.txt' % name).read()
ok = 'baseline with the change: PASS' in res and 'demo on clean worktree:   PASS' in res and 'demo with the change:     FAIL' in res
p = '/verif/seeded/%s/meta.json' % name
meta = json.load(open(p))
det = meta.get('checks_run', {})
for m in re.finditer(r'check (C\d+): exit=(\d+) violations_printed=(\d+)', res):
    det[m.group(1)] = 'caught (exit 1)' if m.group(2) == '1' else ('not caught (exit 0)' if m.group(2) == '0' else 'exit ' + m.group(2))
meta['checks_run'] = det
meta['caught_by'] = sorted(k for k, v in det.items() if v.startswith('caught'))
meta['reconfirmed'] = ok
if note: meta.setdefault('history', []).append(note)
json.dump(meta, open(p, 'w'), indent=1)
print(name, 'reconfirmed' if ok else 'NOT RECONFIRMED', meta['caught_by'])
