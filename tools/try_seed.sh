#!/bin/bash
# try_seed.sh <seed-dir> <check-id>...   (seed-dir contains patch.diff, demo/, meta.json)
# 1. confirms the seeded change in a scratch worktree: baseline tests pass with it, the
#    demonstration fails with it and passes without it
# 2. applies it to /repo, runs the given checks (quick tier), and undoes it straight afterwards
# Output: /tmp/seed-results/<name>.txt
set -u
# VERIF_SNAP: a snapshot copy of /verif (bin, spec, known_findings.json, harness/rtsrc) to run the checks from, so that
# /verif can be edited while a batch of seeds is being tried (defaults to /tmp/verif-snap when it exists)
if [ -z "${VERIF_SNAP:-}" ] && [ -d /tmp/verif-snap/bin ]; then VERIF_SNAP=/tmp/verif-snap; fi
export GOFLAGS=-mod=mod GOPROXY=off GOSUMDB=off GOTOOLCHAIN=local
SEED=$(realpath "$1"); shift
NAME=$(basename "$SEED")
OUT=/tmp/seed-results/$NAME.txt
mkdir -p /tmp/seed-results
: > "$OUT"
log() { echo "$@" | tee -a "$OUT"; }
WT=/tmp/wt-verify-$NAME
T="go test -vet=off -count=1 ./seq ./rewriter ./example ./example/lexer ./example/linq ./example/sched1 ./example/sched2 ./example/tree"
git -C /repo worktree remove --force "$WT" >/dev/null 2>&1
git -C /repo worktree add -q --detach "$WT" HEAD || { log "cannot create worktree"; exit 2; }
cleanup() { git -C /repo worktree remove --force "$WT" >/dev/null 2>&1; }
trap cleanup EXIT
run_demo() { # prints PASS/FAIL
  local wt=$1
  if [ -f "$SEED/demo/CMD" ]; then
    # CMD: the exact command line of the demonstration's README, run inside a copy of demo/ under <worktree>/seedwork
    rm -rf "$wt/seedwork/demo-$NAME"; mkdir -p "$wt/seedwork"; cp -r "$SEED/demo" "$wt/seedwork/demo-$NAME"
    find "$wt/seedwork/demo-$NAME" -name go.mod -exec sed -i "s#=> /tmp/wt-[A-Za-z0-9-]*#=> $wt#" {} \;
    (cd "$wt/seedwork/demo-$NAME" && timeout 900 sh -e ./CMD) > "/tmp/seed-results/$NAME.demo.$2.log" 2>&1 && echo PASS || echo FAIL
  elif [ -f "$SEED/demo/run.sh" ]; then
    rm -rf "$wt/seedwork/demo-$NAME"; mkdir -p "$wt/seedwork"; cp -r "$SEED/demo" "$wt/seedwork/demo-$NAME"
    # point the demo module at this worktree
    find "$wt/seedwork/demo-$NAME" -name go.mod -exec sed -i "s#=> /tmp/wt-[A-Za-z0-9-]*#=> $wt#" {} \;
    find "$wt/seedwork/demo-$NAME" -name 'run.sh' -exec sed -i "s#/tmp/wt-C[0-9]*#$wt#g; s#/tmp/seed-out/$NAME/demo#$wt/seedwork/demo-$NAME#g" {} \;
    (cd "$wt/seedwork/demo-$NAME" && timeout 600 sh run.sh) > "/tmp/seed-results/$NAME.demo.$2.log" 2>&1 && echo PASS || echo FAIL
  elif [ -d "$SEED/demo/gen" ] && [ -d "$SEED/demo/run" ] && [ -f "$SEED/demo/go.mod" ]; then
    # compiler driver + runner: go run ./gen <pkg> && go run ./run
    rm -rf "$wt/seedwork/demo-$NAME"; mkdir -p "$wt/seedwork"; cp -r "$SEED/demo" "$wt/seedwork/demo-$NAME"
    find "$wt/seedwork/demo-$NAME" -name go.mod -exec sed -i "s#=> /tmp/wt-[A-Za-z0-9-]*#=> $wt#" {} \;
    pkgdir=$(cd "$wt/seedwork/demo-$NAME" && ls -d */ | grep -v -E '^(gen|run)/' | head -1 | tr -d /)
    (cd "$wt/seedwork/demo-$NAME" && find "$pkgdir" -name '*.go' ! -name '*_co.go' ! -name '*_co_test.go' -delete; timeout 900 sh -c "go run ./gen $pkgdir && go run ./run") > "/tmp/seed-results/$NAME.demo.$2.log" 2>&1 && echo PASS || echo FAIL
  elif [ -f "$SEED/demo/main.go" ] && [ -f "$SEED/demo/go.mod" ]; then
    # a self-contained demo program: go run . (C15) or go build && ./demo check (C16)
    rm -rf "$wt/seedwork/demo-$NAME"; mkdir -p "$wt/seedwork"; cp -r "$SEED/demo" "$wt/seedwork/demo-$NAME"
    find "$wt/seedwork/demo-$NAME" -name go.mod -exec sed -i "s#=> /tmp/wt-[A-Za-z0-9-]*#=> $wt#" {} \;
    if grep -q "demo check" "$SEED/demo/README.txt"; then
      (cd "$wt/seedwork/demo-$NAME" && timeout 900 sh -c 'go build -o demo . && ./demo check') > "/tmp/seed-results/$NAME.demo.$2.log" 2>&1 && echo PASS || echo FAIL
    else
      (cd "$wt/seedwork/demo-$NAME" && timeout 900 go run .) > "/tmp/seed-results/$NAME.demo.$2.log" 2>&1 && echo PASS || echo FAIL
    fi
  else
    local pk=seq
    for f in "$SEED"/demo/*_test.go; do
      if grep -q '^package rewriter' "$f"; then pk=rewriter; fi
      cp "$f" "$wt/$pk/zz_seed_$(basename "$f")"
    done
    (cd "$wt" && timeout 600 go test -vet=off -count=1 ./$pk) > "/tmp/seed-results/$NAME.demo.$2.log" 2>&1 && echo PASS || echo FAIL
    rm -f "$wt"/$pk/zz_seed_*
  fi
}
log "== seed $NAME: $(jq -r .summary "$SEED/meta.json" 2>/dev/null | cut -c1-300)"
log "demo on clean worktree:   $(run_demo "$WT" clean)"
if ! git -C "$WT" apply --check "$SEED/patch.diff" 2>>"$OUT"; then log "PATCH DOES NOT APPLY to current HEAD"; exit 3; fi
git -C "$WT" apply "$SEED/patch.diff"
rm -rf "$WT/seedwork"
if (cd "$WT" && go build ./... && $T) >/tmp/seed-results/$NAME.baseline.log 2>&1; then log "baseline with the change: PASS"; else log "baseline with the change: FAIL (seed rejected)"; fi
log "demo with the change:     $(run_demo "$WT" mutant)"
# now the checks, against the scratch worktree carrying the change (VERIF_REPO), so that /repo
# itself stays untouched and available (equivalent to git -C /repo apply; run; git checkout)
rm -rf "$WT/seedwork"
for id in "$@"; do
  (cd ${VERIF_SNAP:-/verif} && VERIF_DIR=${VERIF_SNAP:-/verif} VERIF_REPO="$WT" VERIF_EVIDENCE_DIR=/tmp/seed-results/evidence VERIF_REPLAY_DIR=/tmp/seed-results/replays timeout 3600 ./bin/verifctl check "$id" --tier ${VERIF_TRY_TIER:-quick}) > "/tmp/seed-results/$NAME.$id.log" 2>&1
  rc=$?
  nv=$(grep -c '^VIOLATION' "/tmp/seed-results/$NAME.$id.log")
  log "check $id: exit=$rc violations_printed=$nv $(grep '^RESULT' /tmp/seed-results/$NAME.$id.log | cut -c1-120)"
done
