#!/usr/bin/env python3
"""import_seed.py <seed-out-dir> [note]  -- copies a confirmed seeded change into /verif/seeded/<name>/
(patch.diff, demo/, meta.json) with what was run here and which checks caught it (from /tmp/seed-results)."""
import json, os, re, shutil, sys
src = sys.argv[1].rstrip('/')
note = sys.argv[2] if len(sys.argv) > 2 else ""
name = os.path.basename(src)
dst = os.path.join('/verif/seeded', name)
res = open('/tmp/seed-results/%s.txt' % name).read()
if 'baseline with the change: PASS' not in res or 'demo on clean worktree:   PASS' not in res or 'demo with the change:     FAIL' not in res:
    print('NOT CONFIRMED, not importing', name); sys.exit(1)
os.makedirs(dst, exist_ok=True)
shutil.copy(os.path.join(src, 'patch.diff'), dst)
if os.path.isdir(os.path.join(dst, 'demo')): shutil.rmtree(os.path.join(dst, 'demo'))
shutil.copytree(os.path.join(src, 'demo'), os.path.join(dst, 'demo'), ignore=shutil.ignore_patterns('*.exe'))
meta = json.load(open(os.path.join(src, 'meta.json')))
old = {}
if os.path.exists(os.path.join(dst, 'meta.json')):
    old = json.load(open(os.path.join(dst, 'meta.json')))
det = old.get('checks_run', {})
for m in re.finditer(r'check (C\d+): exit=(\d+) violations_printed=(\d+)', res):
    det[m.group(1)] = 'caught (exit 1)' if m.group(2) == '1' else ('not caught (exit 0)' if m.group(2) == '0' else 'exit ' + m.group(2))
meta.update({
    'breaks_property': meta.get('property'),
    'confirmed_here': 'in a scratch worktree of /repo HEAD: baseline tests pass with the change; the demonstration passes on the clean tree and fails with the change (tools/try_seed.sh)',
    'checks_run': det,
    'caught_by': sorted(k for k, v in det.items() if v.startswith('caught')),
})
hist = old.get('history', [])
if note: hist.append(note)
meta['history'] = hist
json.dump(meta, open(os.path.join(dst, 'meta.json'), 'w'), indent=1)
print('imported', name, meta['caught_by'])
