#!/bin/bash
# rebase_seeds.sh: brings the seeded patches that no longer apply to /repo HEAD (because of later
# fix: / hook commits) forward: finds the newest commit the patch applies to, commits it there in a
# scratch worktree and cherry-picks it onto HEAD; conflicts are reported and left for manual work.
cd /repo
for d in /verif/seeded/*/ ${EXTRA_SEEDS:-}; do
  n=$(basename $d)
  git apply --check $d/patch.diff 2>/dev/null && continue
  base=""
  for c in $(git log --format=%h); do
    git worktree add -q --detach /tmp/wt-rb $c
    if git -C /tmp/wt-rb apply --check $d/patch.diff 2>/dev/null; then base=$c; break; fi
    git worktree remove --force /tmp/wt-rb
  done
  if [ -z "$base" ]; then echo "$n: applies nowhere"; continue; fi
  git -C /tmp/wt-rb apply $d/patch.diff
  git -C /tmp/wt-rb -c user.name=x -c user.email=x@x commit -qam seed
  sc=$(git -C /tmp/wt-rb rev-parse HEAD)
  git -C /tmp/wt-rb checkout -q --detach main
  if git -C /tmp/wt-rb -c user.name=x -c user.email=x@x cherry-pick $sc >/dev/null 2>&1; then
    git -C /tmp/wt-rb diff HEAD~1 HEAD > /tmp/rebased-$n.diff
    echo "$n: rebased from $base -> /tmp/rebased-$n.diff"
  else
    echo "$n: CONFLICT (base $base)"; git -C /tmp/wt-rb diff --name-only --diff-filter=U
    git -C /tmp/wt-rb diff > /tmp/conflict-$n.diff
    git -C /tmp/wt-rb cherry-pick --abort
  fi
  git worktree remove --force /tmp/wt-rb
done
git worktree prune
