#!/usr/bin/env python3
"""Regenerates /verif/MANIFEST.json from the table below (one source of truth
for the per-check texts).  Run: python3 tools/mkmanifest.py"""
import json, os

ROOT = os.path.dirname(os.path.dirname(os.path.abspath(__file__)))

CHECKS = {
 "C08": dict(
  level="model_checking",
  technique="TLA+ model checking (TLC: seq.go transcription = direct-style reference on all terms) + replay of every TLC-emitted case on the real runtime",
  text="TLC checks, exhaustively over all well-formed combinator terms up to the size bound x all input tapes x all truncations, that SeqMachine.tla (function-by-function transcription of seq/seq.go) equals SeqStructured.tla (structured loops with break/continue/return: the documented semantics). Every explored case is emitted with its expected per-call observation and replayed through the public API of the real runtime built from /repo; yields, thunk/cond/post evaluation order and counts, and Result must agree.",
  note="Trusted: TLC; the rendering of terms to seq.* calls (one function per node kind); rt.Rec as Go twin of Rec.tla. Bounded: terms up to 3 (quick) / 4 (thorough) combinator nodes, int elements, one captured variable.",
  design="7 C08, 3.4, 3.5"),
}

CHECKS["C09"] = dict(
  level="model_checking",
  technique="TLA+ model checking of all call histories (TLC) + Apalache inductive invariant of the abstract protocol + replay of every history on the real generator",
  text="TLC explores every history over MoveNext/Current/Send/Result up to the length bound on a family of generators (0..n yields, with/without result, effectful, echoing BindRecv, infinite) and checks: Current is zero when fresh/exhausted, exhaustion is permanent and runs no generator code (action property), agreement with the structured reference where Send(v) means resume-with-v, and refinement of the abstract protocol machine GenProtocol, whose inductive invariant Apalache discharges without bound. Every history is replayed on the real generator; the return value of every call, Current (read twice), Result and the generator-side effect log must match.",
  note="Trusted: TLC, Apalache, the term renderer, rt.Rec. Send/Result have no native Go reference; the oracle is the seq.go transcription cross-checked against the structured reference. Bounded: histories of length 5 (quick) / 7 (thorough), 9 generators.",
  design="7 C09, 3.8")

NOT_YET = {}

def main():
    props = [json.loads(l) for l in open(os.path.join(ROOT, "properties.jsonl"))]
    checks = []
    na = []
    for p in props:
        pid = p["id"]
        if pid in CHECKS:
            c = CHECKS[pid]
            checks.append({
                "property_id": pid,
                "quick_cmd": "bin/verifctl check %s --tier quick" % pid,
                "thorough_cmd": "bin/verifctl check %s --tier thorough" % pid,
                "evidence_file": "/verif/evidence/%s.json" % pid,
                "replay_cmd_template": "bin/verifctl replay {path}",
                "engine": "verifctl",
                "level_claimed": {"category": c["level"], "text": c["text"], "design_ref": c["design"]},
                "level_note": c["note"],
                "technique": c["technique"],
            })
        else:
            na.append({"property_id": pid, "reason": NOT_YET.get(pid, "check under construction in this build phase (see DESIGN.md section 12); not claimed yet")})
    m = {
        "version": 1,
        "setup_cmd": "./setup.sh",
        "hooks": {
            "guard": "verif",
            "enable": "go build -tags verif (the harness builds the compiler driver from /repo's working tree with -tags verif)",
            "baseline_off_cmd": "cd /repo && GOFLAGS=-mod=mod GOPROXY=off GOSUMDB=off GOTOOLCHAIN=local go test -vet=off -count=1 ./seq ./rewriter ./example ./example/lexer ./example/linq ./example/sched1 ./example/sched2 ./example/tree",
            "source_commits": [],
            "add_only": True,
        },
        "engines": [{"name": "verifctl", "path": "/verif/harness", "serves_properties": sorted(CHECKS), "kind_free_text": "Go orchestrator: runs TLC on /verif/spec, renders TLC-emitted cases to Go, runs the real compiler/runtime from /repo, compares / validates traces"}],
        "checks": checks,
        "not_applicable": na,
        "notes": "All verdicts come from the real code; a TLC error, spec/native disagreement or harness failure exits 2 and is never a violation.",
    }
    hooks = os.path.join(ROOT, "tools", "hook_commits.txt")
    if os.path.exists(hooks):
        m["hooks"]["source_commits"] = [l.strip() for l in open(hooks) if l.strip()]
    json.dump(m, open(os.path.join(ROOT, "MANIFEST.json"), "w"), indent=1)
    print("MANIFEST.json: %d checks, %d not yet claimed" % (len(checks), len(na)))

main()
