#!/usr/bin/env python3
"""Regenerates /verif/MANIFEST.json from the table below (one source of truth
for the per-check texts).  Run: python3 tools/mkmanifest.py"""
import json, os

ROOT = os.path.dirname(os.path.dirname(os.path.abspath(__file__)))

CHECKS = {
 "C08": dict(
  level="model_checking",
  technique="TLA+ model checking (TLC: seq.go transcription = direct-style reference on all terms) + replay of every TLC-emitted case on the real runtime",
  text="TLC checks, exhaustively over all well-formed combinator terms up to the size bound x all input tapes x all truncations, that SeqMachine.tla (function-by-function transcription of seq/seq.go) equals SeqStructured.tla (structured loops with break/continue/return: the documented semantics). Every explored case is emitted with its expected per-call observation and replayed through the public API of the real runtime built from /repo; yields, thunk/cond/post evaluation order and counts, and Result must agree.",
  note="Trusted: TLC; the rendering of terms to seq.* calls (one function per node kind); rt.Rec as Go twin of Rec.tla. Bounded: terms up to 3 combinator nodes exhaustively (thorough: longer tapes, more calls, 30 000 derived terms of size 5..12; size 4 -- 64 197 terms, 963 k cases -- was run three times without violation but needs 35 min and 20 GB and is not the registered tier), int elements, one captured variable.",
  design="7 C08, 3.4, 3.5"),
}

CHECKS["C09"] = dict(
  level="model_checking",
  technique="TLA+ model checking of all call histories (TLC) + Apalache inductive invariant of the abstract protocol + replay of every history on the real generator",
  text="TLC explores every history over MoveNext/Current/Send/Result up to the length bound on a family of generators (0..n yields, with/without result, effectful, echoing BindRecv, infinite) and checks: Current is zero when fresh/exhausted, exhaustion is permanent and runs no generator code (action property), agreement with the structured reference where Send(v) means resume-with-v, and refinement of the abstract protocol machine GenProtocol, whose inductive invariant Apalache discharges without bound. Every history is replayed on the real generator; the return value of every call, Current (read twice), Result and the generator-side effect log must match.",
  note="Trusted: TLC, Apalache, the term renderer, rt.Rec. Send/Result have no native Go reference; the oracle is the seq.go transcription cross-checked against the structured reference. Bounded: histories of length 5 (quick) / 6 (thorough), 9 generators.",
  design="7 C09, 3.8")

SRC_NOTE = "Trusted: TLC; the renderers (one function per AST node kind; every rendered go-co source must type-check under -tags co or the run exits 2); rt.Rec as the Go twin of Rec.tla; Go's own iter.Pull as the native reference that the specification must equal on every case before any verdict is given (disagreement = exit 2, never a violation). "
def src(level_text, bounds, design):
    return dict(level="model_checking",
      technique="explicit TLA+ specification (CoSource reference coroutine semantics) model-checked by TLC, which enumerates the program family and emits the expected trace of every case; every case replayed through the REAL compiler and runtime; spec validated against native iter.Pull on every case",
      text=level_text, note=SRC_NOTE + bounds, design=design)
CHECKS["C01"] = src("TLC enumerates every generator program of the control-flow family up to the size bound x every input tape, interprets it with CoSource.tla (the reference coroutine semantics: yield suspends, MoveNext resumes) and emits the expected (ok, Current) sequence incl. the end point and every finite prefix; each program is compiled by the real rewriter from /repo, built, and run on the real runtime; the delivered values, their order and number and the end of iteration must equal the specification's.",
  "Bounded: programs up to 3 (quick) / 4 (thorough) statements with free initialisers/conditions/posts, tapes up to 3/4, int elements.", "7 C01, 3.3, 4")
CHECKS["C02"] = src("Same pipeline on a family with effects at every position and effectful yield expressions; the compared observation is the interleaving itself: recorder entries written by the generator function call (none allowed), by each MoveNext (exactly those between two yields, in source order, including the yielded expression's own), and after the consumer stopped (none allowed). Every truncation length k is a separate run on a fresh iterator.",
  "Bounded as C01; 'nothing further runs' is observed on the recorder after the last call.", "7 C02")
CHECKS["C03"] = src("Family of programs that declare, shadow (blocks, if/switch/for initialisers), update and capture (closure created before a yield, called after) locals at all positions relative to yields; CoSource gives cells and per-frame environments; values of the in-scope variables are observed by every effect and yield.",
  "Bounded: size 3/4; names a, b; one closure shape; excludes closures capturing three-clause loop variables across iterations.", "7 C03, 4.1")
CHECKS["C05"] = src("Family of main generators delegating with YieldFrom at every statement position (incl. for-post) to three delegates (two yields with an effect in between, maybe-empty, recursive tree walk bounded by the tape); CoSource models delegation as a frame advancing the delegate one step per consumer step, argument evaluated once; effects make laziness and argument evaluation count visible; all truncations as prefixes.",
  "Bounded: mains up to 3/4 statements, recursion depth bounded by tape length (3 quick / 5 thorough).", "7 C05")
CHECKS["C11"] = src("The grammars of spec/SrcSyntax.tla + MC_Src.tla alphabets are the supported subset written down; TLC enumerates all members (control flow with every switch form: tagged, default-first, without default, type switch, tag-less) and each is compiled by the real tool and the generated package built without the co tag; configurations: dot / default-name / renamed import of the API, return only where required vs always. A compiler panic, non-zero exit or build error on any member is a violation.",
  "Bounded: size 3 (quick) / 4 (thorough); configuration dimension on a covering subset in quick.", "7 C11")
CHECKS["C18"] = src("Control-flow family with panic(\"boom\") at every statement position: the specification says which MoveNext call panics, with which value, and what was delivered before; the driver recovers around every call of the real iterator and the native one and compares; event-budget exhaustion provides panics at arbitrary positions inside loops as well.",
  "Bounded: size 3/4. Behaviour after the panic is unconstrained (history ends).", "7 C18")

CHECKS["C17"] = dict(level="model_checking",
  technique="TLA+ model checking of the abstract call depth of the seq.go transcription (TLC invariant) + replay of the TLC-selected loop cases on the real runtime/compiled code with real call-depth sampling",
  text="SeqMachine.tla counts the CPS activations Go keeps on its stack during one advance; TLC checks on every loop term (size<=3/4) under periodic tapes that the depth is bounded by a function of the term's shape only (invariant DepthBounded; the loop driver is modelled as in the code at HEAD). TLC also selects the (term, pattern) and (compiled F_ctl loop program, pattern) cases whose first advance runs through the whole tape without yielding; each is replayed on the real code with the pattern repeated 2*10^4 (quick) / 2*10^5 (thorough) times while runtime.Callers depth is sampled at events 10, 100, 1000, ...: growth beyond event 10 must stay below 1000 frames, and recursive delegation must add a constant number of frames per level.",
  note="TLA+ has no notion of real stack frames: the bound is measured by the harness on the real code (runtime.Callers) and checked against the spec's abstract statement. Trusted: TLC, renderers, rt.Rec probe.",
  design="7 C17")

CHECKS["C10"] = dict(level="model_checking",
  technique="explicit TLA+ specification of Go's range (RangeSem: UTF-8 table, snapshot/live-read rules; mutation interleavings as spec actions explored by TLC) with every case replayed on the real iterators; map loops by trace validation (Trace_Map) of recorded event traces",
  text="RangeSem.tla transcribes Go's range semantics: UTF-8 decoding table with byte-offset keys and U+FFFD/width-1 recovery, 0..n-1 for ints, header snapshot + live element reads for slices, FIFO-until-close for channels. TLC enumerates all strings up to the length bound over a 16-byte boundary alphabet (plus seeded random longer strings passed in as data), all small ints, and every interleaving of up to 2-3 mutations (store, append, reslice, send, close) with the iterations of slice/channel loops, emitting the expected pairs; the real New*Iter iterators are driven on each. Map loops (unspecified order) are recorded as event traces -- natively and through NewMapIter, incl. nil interface keys/values and delete/insert during the loop -- and validated against Trace_Map.tla.",
  note="Spec validated against native Go range on every case (exit 2 on disagreement; the native map traces must be accepted too). Trusted: TLC, the fixed driver program that interprets mutation scripts.",
  design="7 C10, 3.7")

CHECKS["C06"] = src("MC_Cons.tla gives big-step meaning to consumer functions that pull and range over two live iterators (range := / = with guarded break/continue/return, nesting, a body re-declaring the loop variable, pulls before/inside/after loops); the recorder is shared with the generators, so the number of advances the generator side sees is part of the observation (no over-pulling after break/return). TLC enumerates all consumers up to the size bound x tapes; each is compiled in the same processed file as the generators by the real tool and run; configurations vary where the iterator lives (variable, struct field, slice, map, closure result, function parameter) and how generators are declared (function, method, generic), which exercises the Iter -> Iterator type replacement at every syntactic position (a missed one is a build failure = violation).",
  "Bounded: consumers up to 3/4 statements over two fixed generators. Native reference = Go's own range-over-func over an adaptor of the pulled iterator.", "7 C06")
CHECKS["C14"] = src("MC_Sched.tla: K iterators (same generator function several times, different functions, recursive delegation, closure state) each in its own world, TLC enumerates EVERY interleaving with M advances each and checks the invariant that per-iterator observations equal the solo run (that is what independence means); every complete schedule is replayed on the real compiled generators on one goroutine, and every tuple is consumed with one goroutine per iterator in a driver built with -race (GORACE=halt_on_error); a differing per-iterator trace or a reported race is a violation.",
  "The data-race half is decided by Go's race detector during replay -- TLA+ has no Go memory model. Bounded: K=2,M=3 and K=3,M=2 (quick); K=2,M=4 and K=3,M=3 (thorough: 1680 schedules per tuple).", "7 C14")

CHECKS["C04"] = src("CoSource.tla embeds Go's range semantics (RangeSem.tla: expression evaluated once, header snapshot with live element reads for slices, COPY for arrays, byte offsets/U+FFFD for strings, 0..n-1, channel until close; `:=` declares per-iteration variables, `=` assigns function-level ones, blank/omitted forms). TLC enumerates the family: collection kind x variable form x range expression as variable or call x body (yield key/value, mutations of the collections, guarded break/continue, nesting, the loop inside a closure nested in the generator) and emits expected traces; each program goes through the real compiler and is compared. Map range loops inside generators (unspecified order; delete/insert during the loop; nil interface keys/values) are compiled, drained, and their recorder logs validated as traces against Trace_Map.tla.",
  "Known finding KF03b (arrays ranged live instead of over a copy) is a named as-built clause in RangeNext; TLC emits the ideal and the as-built expectation and only an exact match of the latter is reported as KNOWN-FINDING. Bounded: loop + 1 (quick) / 2 (thorough) body statements, fixed small collections.", "7 C04, 3.7")

CHECKS["C07"] = dict(level="translation_validation",
  technique="TLA+-enumerated program families (TLC) compiled once; the unoptimised stage kept by the verif hook and the optimised output are both built and run on the same drivers and compared case by case; the CoSource trace names the side that is wrong",
  text="For every program of the families F_opt (closures of eta shape with every callee kind: reassigned function variable as loop condition, method value with reassigned receiver, package function, generic instance, builtin, conversion), F_expr (expression shapes of yielded values: what Delay elision may touch) and F_ctl, TLC enumerates the programs and tapes; the real compiler runs once per package with GOCO_VERIF_STAGE_DIR set (build tag verif) so that <dst>_tmp survives; stage and output are built side by side and every case is run on both: differing value sequences or effect interleavings, or an output that does not build while the stage does, is a violation.",
  note="The stage copy still imports the API (import clean-up is part of the optimiser): exactly the imports go build reports as unused are stripped from the COPY. Trusted: TLC, renderers, the hook (one added call at the end of Compile / GoGen, no-op without the tag).",
  design="7 C07, 9")
CHECKS["C13"] = src("Bystander family F_by: plain functions (no yield) that live in processed files, built from the closures of eta shape with every callee kind, loops over a reassigned function variable, effects; CoSource runs them eagerly; the generated file's version is called once and its effect log and result compared; the package additionally carries a constant, an initialised variable, a local type with method, a side-effect import and an import used only by non-generator code, whose values/presence are compared too. F_opt: the same closures inside generator bodies, judged per call against the specification. A bystander whose generated version does not build is a violation of this property as well.",
  "Native reference: the same functions compiled directly (nat package). Bounded: size 3/4.", "7 C13")
CHECKS["C15"] = dict(level="model_checking",
  technique="TLA+ specification of the tool's file-level contract (Pipeline.tla); TLC enumerates scenario scripts and checks the design-level invariants; scripts replayed on the real tool, recorded directory snapshots validated by trace validation (Trace_Pipeline.tla) with the content function inferred",
  text="MC_Pipeline.tla explores every script of up to 3-4 actions (run the tool in p/ or q/, add/remove unrelated files and packages, edit the source, plant a stale temporary directory) over a universe of files and checks idempotence / outputs-are-functions / no-output-without-use on the ideal tool. A seeded selection of the scripts is replayed on the real tool in production mode; the snapshots (path, sha256, build constraint, header) before and after every run are validated by Trace_Pipeline.tla, whose inferred function source-content -> output-content must remain a function across all runs of all scenarios: same source => same bytes regardless of other files, packages, earlier outputs and run order. The first source version has sequential and nested range loops of one kind (unique helper identifiers: output must build).",
  note="Byte identity is measured by the harness (sha256); TLA+ sees content ids. Selection: 48 (quick) / 400 (thorough) of the enumerated scripts, chosen by VERIF_SEED.",
  design="7 C15, 3.9")
CHECKS["C16"] = dict(level="model_checking",
  technique="same specification and trace validation as C15, entry point go generate -> cmd/cogen; additional obligations per tool run: go build / go test without the tag, go vet -tags co; module-root layout",
  text="The scenarios of MC_Pipeline.tla replayed through `go generate -tags co` (the //go:generate directive runs cmd/cogen in the package directory). Trace_Pipeline.tla requires after every run: for each *_co.go / *_co_test.go using the API exactly the derived sibling with the !co constraint and the generated-code header; nothing else created, modified or left behind (no temporary directory); go build and go test succeed without the tag; the package still type-checks with it; a later run reproduces the same bytes (idempotence via the inferred function). A source that imports but does not use the API yields no file.",
  note="Known finding KF12 (package directory = module root: nothing is written) is the named as-built clause RootAsBuilt of Trace_Pipeline.tla, used only for that layout and only when the ideal specification rejects the run.",
  design="7 C16, 3.9")

CHECKS["C12"] = src("Family F_unsup: a small control alphabet plus exactly one construct outside the supported subset at any statement position (labelled break/continue, goto+label, select, defer, fallthrough out of a yielding case, yield in an if initialiser, range over pointer-to-array / func / type-parameter slice) and, as negative controls, the same constructs inside a closure nested in the generator without a yield inside. CoSource gives each construct its Go meaning by desugaring (labels, defers, live array reads are modelled), validated natively. Outcome per program: the tool fails (diagnostic panic, non-zero exit, unbuildable output) = rejected, fine; accepted = the compiled generator must equal the specification, else violation; a negative control that is rejected is a violation; plus a generator with the wrong result signature.",
  "Any failure of the tool counts as rejection; the property forbids output that builds and behaves differently. Bounded: size 2 (quick) / 3 (thorough).", "7 C12")

# additions made while the families grew (second round of seeded changes, defects reported by sub-agents)
ADD = {
 "C08": (" The term grammar also contains the two combinators added by repairs: seq.ForPost (post statement as a Seq) and seq.Breakable (a Break leaves the body); larger terms (size 5..12) derived from seeded choice tapes go through the same machine, reference and replay; the runtime's internal event stream recorded by the tracer hook is validated against Trace_Seq.tla.", ""),
 "C01": (" Further families through the same pipeline: F_lit (immediately invoked closures and generator literals nested in the generator, capturing its variables), F_jump (break / continue / switch / yielding post statements one size level deeper), the control-flow programs under every declaration form (method, generic function, function literal, literal nested in a literal), and larger programs derived from seeded choice tapes (MC_Rnd).",
         " Thorough: F_ctl and F_lit at the quick size with tapes one longer, F_jump size 5, 5 000 derived programs (a size-4 sweep of F_ctl, 58 976 programs / 1.83 M cases, ran once: 38 min, all spec = native, no violation; it is not the registered thorough tier because it needs 25 GB)."),
 "C02": (" Also F_expr (shapes of the yielded expression: negated, parenthesised, argument of a call, a variable of another package rt.Level changed by a plain post statement) and F_box / F_boxv (yields of freshly allocated objects and of struct VALUES, i.e. composite literals that read a variable).",
         " Thorough: F_eff size 3 x tapes up to 4 x every truncation."),
 "C03": (" Also F_rscope (range loops: `=` forms assign the function-level variables observed after the loop, `:=` forms do not) and F_boxv (a variable read by a yielded composite literal is read when the yield is reached).", ""),
 "C05": ("", " Thorough: size 3 x tapes up to 5 x 9 calls."),
 "C06": (" Loop headers without a variable (for range it, for _ = range it) and a multi-value re-declaration of the loop variable in the body are part of the consumer grammar. Second family F_xf of MC_Src: consumers that are generators themselves (for k := range it { ... Yield ... } over a local iterator, also inside switch clauses, with break / continue / return and hand pulls).", ""),
 "C09": ("", " Family of 11 generators incl. generators that mix receiving and plain yields."),
 "C10": (" The exhaustive alphabet has 18 bytes (incl. EF BF BD: a validly encoded U+FFFD); boundary runes, surrogates, overlong and truncated forms and random mixtures of valid runes with stray bytes are passed in as data; map scenarios include a NaN key (not equal to itself) in the initial population; the integer iterator is also driven with uint8 / int64 / named integer types and called 300 times past its end.", ""),
 "C11": (" Besides F_ctlx the tool also compiles every program of F_range (incl. sequences of loops over array values, named operand types, a typed constant operand), F_scope, F_yf, F_xf, F_expr and F_jump at a smaller bound; the F_expr packages additionally declare generators of slice / map / func / any / error / struct / pointer / channel / Iter[int] (generator of generators) / type-parameter element types.",
         " Thorough: same sizes, every 2nd program under each other configuration."),
 "C12": (" Further constructs: a parenthesised yield statement, yield in the initialiser of an else-if, labelled range loop, defer inside a loop without any yield, defer / break / continue inside a range loop the rewriter leaves native, break inside a yield-free select; negative controls clo-lrange, clo-selbrk.", ""),
 "C13": (" Wrappers of eta shape whose type differs from the callee's (implicitly instantiated generic, unnamed or variadic parameters, result converted to an interface, permuted / repeated arguments), a //go:embed directive next to a generator literal, and a package-level function variable declared in an ordinary (unprocessed) file of the package are part of the bystander packages.", ""),
 "C14": (" Two further families of MC_Src: F_indep (ONE generator holding a local iterator, delegates and a second iterator created in a later step; hand pulls also after exhaustion) and F_gg (generators of GENERATORS consumed by the flattening round-robin consumer GGStep of CoSource.tla = rt.GGIt, which keeps every delivered handle and advances exhausted ones again in every cycle).", ""),
 "C15": (" Plus a hand-written dependency scenario (a closure over a generator of a sub-package of the same run; three runs on unchanged sources must give the same bytes) validated by the same trace specification.", ""),
 "C16": (" Plus the dependency scenario of C15 and a path scenario (`_co` elsewhere in directory and file names: app_core/rune_codec_co.go) through the same entry point.", ""),
 "C17": ("", " Term / program size 3 in both tiers; 2*10^4 (quick) / 2*10^5 (thorough) repetitions."),
 "C18": (" Also a panicking yielding post statement (for ...; ...; Yield(r.B(7))) combined with continue inside a switch.", " Thorough: size 3 x tapes up to 4."),
 "C04": (" Operands of named types, an untyped constant operand with an int64 iteration variable, empty-body loops as simple statements (sequences of loops in one block).", " Thorough: the family with the additional mutations (rangex) at the quick size."),
 "C07": (" F_box / F_boxv (fresh objects / composite-literal values), permuted-argument wrappers and the qualified variable rt.Level are included; a missing stage is a machinery error (exit 2), never a silent pass.", ""),
}
# third round of seeded changes
ADD3 = {
 "C08": " Family T_nest: two nested tape-conditioned loops whose INNER loop is one Seq value run once per outer iteration (a run of a loop value that starts while an earlier run of the same value is still unwinding), body = tape-guarded choice between signals, yield-then-signal and a second guarded pair, every tape of length 8.",
 "C02": " F_boxm: generators of maps, the yielded operand is a map literal whose KEY is the computed expression.",
 "C07": " F_boxm (map literals with a computed key) as well.",
 "C05": " Tag switches may carry a delegating initialiser (switch YieldFrom(g); tag {..}), executed and suspended in before the tag is evaluated.",
 "C01": " F_jump: tag switches with a yielding initialiser (switch Yield(v); tag {..}).",
 "C14": " The concurrent phase runs first in every job and adds a bystander goroutine that consumes a generator of another element type (string) at the same time: independence across instantiations of the generic runtime, nothing warmed up.",
 "C15": " The second version of the edited source imports the runtime package by name (what one file calls the runtime must not leak into the files visited after it); the dependency scenario also has a generator whose element type is declared in the sub-package (open finding KF34: named clause ProvisionalDep).",
 "C03": " F_loopvar: closures capturing the variable of a three-clause loop in different iterations (per-iteration copies of Go >= 1.22: NextIter of CoSource.tla; open finding KF35).",
 "C11": " One more configuration: a parameter named like the element type (type a = int; func G(r, a, b a) Iter[a]; open finding KF36).",
 "C18": " The panic token of the specification is instantiated per run by one of five Go values chosen by the tape (string, error value, pointer, struct value, genuine runtime error) and a recovered value counts as the original only on identity. Family F_nilit: pull loops `for it.MoveNext() {..}` over an iterator variable that is nil (CoSource condition itn): the nil dereference belongs to the advance that evaluates the condition.",
}
for k, (t, n) in ADD.items():
    CHECKS[k]["text"] += t + ADD3.get(k, "")
    CHECKS[k]["note"] += n

NOT_YET = {}

def main():
    props = [json.loads(l) for l in open(os.path.join(ROOT, "properties.jsonl"))]
    checks = []
    na = []
    for p in props:
        pid = p["id"]
        if pid in CHECKS:
            c = CHECKS[pid]
            checks.append({
                "property_id": pid,
                "quick_cmd": "bin/verifctl check %s --tier quick" % pid,
                "thorough_cmd": "bin/verifctl check %s --tier thorough" % pid,
                "evidence_file": "/verif/evidence/%s.json" % pid,
                "replay_cmd_template": "bin/verifctl replay {path}",
                "engine": "verifctl",
                "level_claimed": {"category": c["level"], "text": c["text"], "design_ref": c["design"]},
                "level_note": c["note"],
                "technique": c["technique"],
            })
        else:
            na.append({"property_id": pid, "reason": NOT_YET.get(pid, "check under construction in this build phase (see DESIGN.md section 12); not claimed yet")})
    m = {
        "version": 1,
        "setup_cmd": "./setup.sh",
        "hooks": {
            "guard": "verif",
            "enable": "go build -tags verif (the harness builds the compiler driver from /repo's working tree with -tags verif)",
            "baseline_off_cmd": "cd /repo && GOFLAGS=-mod=mod GOPROXY=off GOSUMDB=off GOTOOLCHAIN=local go test -vet=off -count=1 ./seq ./rewriter ./example ./example/lexer ./example/linq ./example/sched1 ./example/sched2 ./example/tree",
            "source_commits": [],
            "add_only": True,
        },
        "engines": [{"name": "verifctl", "path": "/verif/harness", "serves_properties": sorted(CHECKS), "kind_free_text": "Go orchestrator: runs TLC on /verif/spec, renders TLC-emitted cases to Go, runs the real compiler/runtime from /repo, compares / validates traces"}],
        "checks": checks,
        "not_applicable": na,
        "notes": "All verdicts come from the real code; a TLC error, spec/native disagreement or harness failure exits 2 and is never a violation.",
    }
    hooks = os.path.join(ROOT, "tools", "hook_commits.txt")
    if os.path.exists(hooks):
        m["hooks"]["source_commits"] = [l.strip() for l in open(hooks) if l.strip()]
    json.dump(m, open(os.path.join(ROOT, "MANIFEST.json"), "w"), indent=1)
    print("MANIFEST.json: %d checks, %d not yet claimed" % (len(checks), len(na)))

main()
