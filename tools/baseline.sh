#!/bin/bash
# runs the repository's own test suite (guard off) on /repo (or $1); the packages of the pinned 50 tests
export GOFLAGS=-mod=mod GOPROXY=off GOSUMDB=off GOTOOLCHAIN=local
cd "${1:-/repo}" && go build ./... && go test -vet=off -count=1 ./seq ./rewriter ./example ./example/lexer ./example/linq ./example/sched1 ./example/sched2 ./example/tree 2>&1 | tail -15
