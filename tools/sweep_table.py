#!/usr/bin/env python3
"""sweep_table.py [tier]: prints one markdown row per check from the RESULT lines of /tmp/runall/<id>.<tier>.log
(written by tools/run_all.sh) -- the raw material of DESIGN.md 0.3 / 0.3b."""
import re, sys, glob, os
tier = sys.argv[1] if len(sys.argv) > 1 else 'quick'
for p in sorted(glob.glob('/tmp/runall/C*.%s.log' % tier)):
    cid = os.path.basename(p).split('.')[0]
    txt = open(p).read()
    m = re.search(r'^RESULT property=(\S+) tier=\S+ (\S+) (.*)$', txt, re.M)
    if not m:
        print('| %s | (no RESULT line) |' % cid); continue
    kv = dict(re.findall(r'(\w+)=(\S+)', m.group(3)))
    known = len(re.findall(r'^KNOWN-FINDING', txt, re.M))
    print('| %s | %s%s | %s | %s programs, %s cases | %s |' % (cid, m.group(2), ' (+%d KNOWN-FINDING lines)' % known if known else '',
          kv.get('states', '-'), kv.get('programs', '-'), kv.get('evaluations', '-'), kv.get('wall', '-')))
