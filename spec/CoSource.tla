----------------------------- MODULE CoSource -----------------------------
(* Reference coroutine semantics of generator SOURCE programs: what a generator
   function written against the go-co API means if Yield suspends the function
   and MoveNext resumes it.  This module is the oracle for C01-C06, C11-C14, C18;
   it is itself validated against native Go (the same programs rendered as
   Go 1.23 iter.Seq functions and pulled with iter.Pull).

   World  w = [store, log, tape, budget, panic, fuel, cos, table, flags]
     store : cells (Seq of Int); variables are names bound to cells by environments
     cos   : coroutine instances  [k, cur, done, penv]
               k    control stack of frames (the suspended continuation)
               cur  value delivered by the latest successful advance
               penv environment of the function's top block (parameters a, b)
     table : generator bodies; table[g] is the statement list of generator g,
             every generator has the signature  func Gg(r *rt.Rec, a, b int) Iter[int]
     flags : as-built deviation flags (known findings), empty for the ideal semantics

   Statements (records with kind k):
     eff(id)            r.E(id, a, b)          observable effect showing both variables
     inc(n)             n++                     n in {"a","b"}
     def(n,d)           n := n + d; _ = n      shadowing short declaration
     callf              f()                     f := func() { a += 100 } declared at function top
     passign(id)        a = r.P(id, a)          effectful update (post statements)
     yield(v)  yfrom(g,arg)
     if(init,c,a,b)     init: None | def       c: [k:"t",id] tape read
     switch(init,form,c,cases)  cases: Seq of [g:"t"|"f"|"d", body, ft]; form "tag"|"type"|"notag"
     block(body)  for(init,c,post,body)  break continue return panic
   Value expressions: lit(v) var(n) add(n,d) obs(id,n) (= r.V(id, n): logs, returns n)

     range(kind,xf,kf,vf,wrap,body)   for K, V :=/= range X { body } over the generator's local
                        collection of that kind (see "collections" below); inside the body
                        effkv(id) = r.E(id, K, V), yield of var k / v, mutations of the collection
   Frames: [t:"seq",ss,env] [t:"loop",c,post,body,env] [t:"sw"] [t:"deleg",it] [t:"range",s,st,env]
   One advance (Adv) runs a coroutine's control stack to the next yield, the end,
   a return or a panic; nested advances (delegation) are the same operator. *)
EXTENDS Rec, RangeSem, FiniteSets

NilDeref == "runtime error: invalid memory address or nil pointer dereference"
MW0(table, tape, budget, flags) ==
  [store |-> <<>>, log |-> <<>>, tape |-> tape, budget |-> budget, panic |-> "", fuel |-> 400,
   cos |-> <<>>, table |-> table, flags |-> flags,
   gg |-> [hs |-> <<>>, pos |-> 0]]     \* state of the flattening consumer of a generator of generators (family gg)

\* ---------------------------------------------------------------- store / environments
Alloc(w, v) == [id |-> Len(w.store) + 1, w |-> [w EXCEPT !.store = Append(@, v)]]
Get(w, env, n) == w.store[env[n]]
Set(w, env, n, v) == [w EXCEPT !.store[env[n]] = v]

\* value expressions -> [v, w]   (evaluation order and effects as in Go)
\*   lit(v) var(n) add(n,d)    obs(id,n) = r.V(id, n): logs <<"v", id, value>>
\*   neg(e) = -e   paren(e) = (e)   w1(e) = r.W(e): a ONE-argument call, logs <<"w", value>>
\*   b1(e) = r.B(e): a one-argument call that panics with "boom"
RECURSIVE EvalV(_, _, _)
EvalV(ve, env, w) ==
  CASE ve.k = "lit" -> [v |-> ve.v, w |-> w]
    [] ve.k = "var" -> [v |-> Get(w, env, ve.n), w |-> w]
    [] ve.k = "add" -> [v |-> Get(w, env, ve.n) + ve.d, w |-> w]
    [] ve.k = "obs" -> LET x == Get(w, env, ve.n) IN [v |-> x, w |-> Log(w, <<"v", ve.id, x>>)]
    \* closures of eta shape declared in the function's prolog; the callee / receiver is read when the CALL is evaluated
    [] ve.k = "gets" -> [v |-> Get(w, env, "sv"), w |-> w]              \* get() with get := func() int { return s.Get() }
    \* pwrap(n) with pwrap := func(x int) int { return pscale(x) } and pscale a package-level function VARIABLE
    \* (initially x + 1000, after `setp` x * 100): read when the call is evaluated
    [] ve.k = "qv"   -> [v |-> Get(w, env, "qv"), w |-> w]               \* rt.Level
    [] ve.k = "pv"   -> [v |-> IF Get(w, env, "pv") = 0 THEN Get(w, env, ve.n) + 1000 ELSE Get(w, env, ve.n) * 100, w |-> w]
    \* a fresh object per evaluation: &box{v: e}; the consumer reads its field and then mutates the object
    [] ve.k = "fresh" -> EvalV(ve.e, env, w)
    [] ve.k = "pk"   -> [v |-> Get(w, env, ve.n) + 1, w |-> w]           \* inc1(n) with inc1 := func(x int) int { return pkgInc(x) }
    [] ve.k = "idg"  -> [v |-> Get(w, env, ve.n), w |-> w]               \* idg(n) with idg := func(x int) int { return ident[int](x) }
    [] ve.k = "idi"  -> [v |-> Get(w, env, ve.n), w |-> w]               \* idi(n) with idi := func(x int) int { return ident(x) } (implicit instantiation)
    [] ve.k = "unn"  -> [v |-> 7, w |-> w]                               \* unn(n) with unn := func(int) int { return seven() } (unnamed parameter)
    [] ve.k = "perr" -> [v |-> 0, w |-> w]                               \* b2i(ge(n) == nil) with ge := func(x int) error { return mkErr(x) }, mkErr returning (*myErr)(nil): a non-nil interface
    [] ve.k = "vari" -> [v |-> 2, w |-> w]                               \* gv(n, n) with gv := func(xs ...int) int { return count(xs) }
    [] ve.k = "swp"  -> [v |-> 1 - Get(w, env, ve.n), w |-> w]           \* swp(n, 1) with swp := func(x, y int) int { return sub2(y, x) } (arguments permuted)
    [] ve.k = "dup"  -> [v |-> 0, w |-> w]                               \* dup(n, 1) with dup := func(x, y int) int { return sub2(x, x) } (argument repeated)
    [] ve.k = "ln"   -> [v |-> 3, w |-> w]                               \* ln("abc") with ln := func(x string) int { return len(x) }
    [] ve.k = "cnv"  -> [v |-> Get(w, env, ve.n), w |-> w]               \* cnv(int64(n)) with cnv := func(x int64) int { return int(x) }
    [] ve.k = "neg" -> LET r == EvalV(ve.e, env, w) IN [v |-> 0 - r.v, w |-> r.w]
    [] ve.k = "paren" -> EvalV(ve.e, env, w)
    [] ve.k = "w1" -> LET r == EvalV(ve.e, env, w) IN
                      IF Panicked(r.w) THEN r ELSE [v |-> r.v, w |-> Log(r.w, <<"w", r.v>>)]
    [] ve.k = "b1" -> LET r == EvalV(ve.e, env, w) IN            \* r.B(e): a one-argument call that panics
                      IF Panicked(r.w) THEN r ELSE [v |-> r.v, w |-> [r.w EXCEPT !.panic = "boom"]]

\* Collections: every generator instance owns the local collections that range loops
\* iterate over (declared in the function's prolog by the renderer):
\*   s   := []int{10,20,30} with capacity 4      arr := [3]int{10,20,30}
\*   str := "a\u00e9\xffz" (bytes 97 195 169 255 122)   n := 3
\*   ch  := buffered channel holding 10, 20, closed
\*   w   := [8]int{}  target of the `=` form whose second operand is indexed by the first:  for kk, w[kk+1] = range s
Heap0 == [s |-> [cells |-> <<10, 20, 30, 0>>, len |-> 3], arr |-> <<10, 20, 30>>,
          str |-> <<97, 195, 169, 255, 122>>, n |-> 3, ch |-> <<10, 20>>, w |-> <<0, 0, 0, 0, 0, 0, 0, 0>>,
          n0 |-> 0, m1 |-> <<<<7, 70>>>>,
          caps |-> <<>>]                     \* caps: the cells captured by the closures appended to `caps` (statement capa)     \* n0 := 0 (empty integer range), m1 := map[int]int{7: 70} (one entry: deterministic)
Spawn(w, g, a, b) ==
  LET c1 == Alloc(w, a) c2 == Alloc(c1.w, b)
      c3 == Alloc(c2.w, 0 - 1) c4 == Alloc(c3.w, 0 - 1) c5 == Alloc(c4.w, 0 - 7)
      c6 == Alloc(c5.w, 7) c7 == Alloc(c6.w, 0) c8 == Alloc(c7.w, 0) c9 == Alloc(c8.w, 0)
      \* kk, vv: function-level variables assigned by `=` range loops; k, v denote the key / value
      \* variable of the innermost range loop (a cell holding -7 when there is none)
      \* sv: the field v of the struct the pointer variable s points to (s := &box{v: 7}; `sets`: s = &box{v: 50})
      \* cv: which function the function variable cv holds (0: func() bool { return r.T(id) }, 1: func() bool { return false })
      env == [a |-> c1.id, b |-> c2.id, kk |-> c3.id, vv |-> c4.id, k |-> c5.id, v |-> c5.id, none |-> c5.id,
              sv |-> c6.id, cv |-> c7.id, pv |-> c8.id,      \* pv: which function the PACKAGE-LEVEL function variable holds
              qv |-> c9.id] IN                               \* qv: the variable rt.Level of ANOTHER package (a qualified identifier)
  [id |-> Len(w.cos) + 1,
   w  |-> [c9.w EXCEPT !.cos = Append(@, [k |-> <<[t |-> "seq", ss |-> w.table[g], env |-> env]>>,
                                          cur |-> Zero, done |-> FALSE, penv |-> env, heap |-> Heap0, defers |-> <<>>])]]

\* ---------------------------------------------------------------- control stack helpers
EndBody == [k |-> "$endbody"]
LabOf(x) == IF "lab" \in DOMAIN x THEN x.lab ELSE ""
RECURSIVE ToLoop(_), PastBreakTarget(_), ToLabel(_, _)
\* labelled break / continue: the stack from the loop frame carrying that label
ToLabel(k, lab) == IF Head(k).t \in {"loop", "range"} /\ LabOf(Head(k)) = lab THEN k ELSE ToLabel(Tail(k), lab)
ToLoop(k) == IF Head(k).t \in {"loop", "range"} THEN k ELSE ToLoop(Tail(k))
PastBreakTarget(k) == IF Head(k).t \in {"loop", "range", "sw"} THEN Tail(k) ELSE PastBreakTarget(Tail(k))
PostFrames(lp) == IF lp.t = "range" \/ IsNone(lp.post) THEN <<>> ELSE <<[t |-> "seq", ss |-> <<lp.post>>, env |-> lp.env]>>
\* Go >= 1.22: "each iteration has its own separate declared variable; the variable used by each subsequent iteration
\* is declared implicitly before executing the post statement and initialised to the value of the previous iteration's
\* variable at that moment".  NextIter(lp, w) = [lp, w]: fresh cells for the loop's declared variables.
\* KF35 (as built): the initialiser is hoisted in front of the loop, all iterations share one variable.
RECURSIVE FreshVars(_, _, _)
FreshVars(names, env, w) ==
  IF names = <<>> THEN [env |-> env, w |-> w]
  ELSE LET al == [id |-> Len(w.store) + 1, w |-> [w EXCEPT !.store = Append(@, w.store[env[Head(names)]])]] IN
       FreshVars(Tail(names), [env EXCEPT ![Head(names)] = al.id], al.w)
NextIter(lp, w) ==
  IF lp.t # "loop" \/ "decl" \notin DOMAIN lp \/ lp.decl = <<>> \/ "KF35" \in w.flags THEN [lp |-> lp, w |-> w]
  ELSE LET fv == FreshVars(lp.decl, lp.env, w) IN [lp |-> [lp EXCEPT !.env = fv.env], w |-> fv.w]
IsYielding(s) == ~IsNone(s) /\ s.k \in {"yield", "yfrom", "yfromit", "ygen"}

SetK(w, i, k) == [w EXCEPT !.cos[i].k = k]

\* initialiser of if/switch/for: None, a short declaration  n := n + d,  or a short declaration of
\* two names from ONE multi-valued expression  a, b := rt.Two(a, b)  (= a + 10, b + 1)   -> [env, w]
ApplyInit(init, env, w) ==
  IF IsNone(init) \/ init.k \notin {"def", "def2"} THEN [env |-> env, w |-> w]
  ELSE IF init.k = "def" THEN LET al == Alloc(w, Get(w, env, init.n) + init.d) IN [env |-> [env EXCEPT ![init.n] = al.id], w |-> al.w]
  ELSE LET a1 == Alloc(w, Get(w, env, "a") + 10) a2 == Alloc(a1.w, Get(w, env, "b") + 1) IN
       [env |-> [env EXCEPT !.a = a1.id, !.b = a2.id], w |-> a2.w]

\* switch: index of the selected clause (0 = none).  b is the value of the tag.
SelectCase(cases, b) ==
  LET want == IF b THEN "t" ELSE "f"
      hit == {j \in 1..Len(cases) : cases[j].g = want}
      def == {j \in 1..Len(cases) : cases[j].g = "d"} IN
  IF hit # {} THEN CHOOSE j \in hit : \A j2 \in hit : j <= j2
  ELSE IF def # {} THEN CHOOSE j \in def : TRUE ELSE 0
CaseStmts(cases, j, env) ==
  cases[j].body \o (IF cases[j].ft /\ j < Len(cases) THEN <<[k |-> "$fall", j |-> j + 1, cases |-> cases, env |-> env]>> ELSE <<>>)

\* ---------------------------------------------------------------- range loops (Go spec, RangeSem)
\* state of a running loop: the range expression was evaluated ONCE, when the statement was reached
RangeStart(s, heap, flags) ==
  CASE s.kind = "slice"  -> [idx |-> 0, len |-> heap.s.len]                \* header snapshot, live element reads
    [] s.kind = "array"  -> [idx |-> 0, copy |-> heap.arr]                 \* an array is ranged over a COPY
    [] s.kind = "parray" -> [idx |-> 0]                                    \* range &arr: no copy, elements are read live
    [] s.kind = "string" -> [idx |-> 0, pairs |-> RangeString(heap.str)]
    [] s.kind = "int"    -> [idx |-> 0, n |-> heap.n]
    [] s.kind = "int0"   -> [idx |-> 0, n |-> heap.n0]
    [] s.kind = "intc"   -> [idx |-> 0, n |-> 3]     \* for kk64 = range 3: an untyped constant takes the type of the iteration variable (int64)
    [] s.kind = "map1"   -> [idx |-> 0, pairs |-> heap.m1]
    [] s.kind \in {"chan", "iter"} -> [idx |-> 0]
\* next pair: [ok, k, v]
RangeNext(s, st, heap, flags) ==
  CASE s.kind = "slice"  -> IF st.idx < st.len THEN [ok |-> TRUE, k |-> st.idx, v |-> heap.s.cells[st.idx + 1]] ELSE [ok |-> FALSE, k |-> 0, v |-> 0]
    [] s.kind = "array"  -> IF st.idx < Len(st.copy)
                            THEN [ok |-> TRUE, k |-> st.idx,
                                  \* KF03b (as built): an array VARIABLE is ranged through arr[:], i.e. live
                                  \* (a call result or a conversion is bound to a temporary first: a copy)
                                  v |-> IF "KF03b" \in flags /\ s.xf = "var" THEN heap.arr[st.idx + 1] ELSE st.copy[st.idx + 1]]
                            ELSE [ok |-> FALSE, k |-> 0, v |-> 0]
    [] s.kind = "parray" -> IF st.idx < Len(heap.arr) THEN [ok |-> TRUE, k |-> st.idx, v |-> heap.arr[st.idx + 1]] ELSE [ok |-> FALSE, k |-> 0, v |-> 0]
    [] s.kind = "string" -> IF st.idx < Len(st.pairs) THEN [ok |-> TRUE, k |-> st.pairs[st.idx + 1][1], v |-> st.pairs[st.idx + 1][2]] ELSE [ok |-> FALSE, k |-> 0, v |-> 0]
    [] s.kind \in {"int", "int0", "intc"} -> IF st.idx < st.n THEN [ok |-> TRUE, k |-> st.idx, v |-> 0] ELSE [ok |-> FALSE, k |-> 0, v |-> 0]
    [] s.kind = "map1"   -> IF st.idx < Len(st.pairs) THEN [ok |-> TRUE, k |-> st.pairs[st.idx + 1][1], v |-> st.pairs[st.idx + 1][2]] ELSE [ok |-> FALSE, k |-> 0, v |-> 0]
    [] s.kind = "chan"   -> IF st.idx < Len(heap.ch) THEN [ok |-> TRUE, k |-> heap.ch[st.idx + 1], v |-> 0] ELSE [ok |-> FALSE, k |-> 0, v |-> 0]
\* mutations of the collections performed by loop bodies
Mutate(m, heap) ==
  CASE m.op = "sset" -> IF m.j < heap.s.len THEN [heap EXCEPT !.s.cells[m.j + 1] = 99] ELSE heap    \* guarded: if j < len(s) { s[j] = 99 }
    [] m.op = "sapp" -> IF heap.s.len < 4 THEN [heap EXCEPT !.s.cells[heap.s.len + 1] = 77, !.s.len = @ + 1] ELSE heap  \* s = append(s, 77) within capacity
    [] m.op = "strunc" -> [heap EXCEPT !.s.len = 1]                                                  \* s = s[:1]
    [] m.op = "aset" -> [heap EXCEPT !.arr[m.j + 1] = 99]                                            \* arr[j] = 99
    [] m.op = "nset" -> [heap EXCEPT !.n = 1]                                                        \* n = 1
    [] m.op = "strset" -> [heap EXCEPT !.str = <<122>>]                                              \* str = "z"

RECURSIVE RunDefers(_, _)
RunDefers(ds, w) == IF ds = <<>> \/ Panicked(w) THEN w ELSE RunDefers(Tail(ds), Log(w, Head(ds)))

\* ---------------------------------------------------------------- constructs outside the supported subset (C12)
\* [k:"unsup", u, id]: the renderer prints the real construct, the specification gives its meaning by
\* desugaring into core statements (the same meaning Go gives it: validated against the native rendering).
\* Kinds with a yield inside a generator body:
\*   lbreak    L: for r.T(id) { for r.T(id+1) { Yield(a); break L } }
\*   lcont     L: for r.T(id) { for r.T(id+1) { Yield(a); continue L }; r.E(id+2, a, b) }
\*   goto      if r.T(id) { goto L }; Yield(a); L: r.E(id+1, a, b)
\*   select    select { case v := <-rt.Ch(7): Yield(v) }
\*   selbrk    select { case v := <-rt.Ch(7): if r.T(id) { break }; r.E(id+1, v, 0) }   (no yield; the break leaves the select)
\*   defer     defer r.E(id, a, b)
\*   fallyield switch r.T(id) { case true: Yield(a); fallthrough; default: Yield(b) }
\*   ifinit    if Yield(a); r.T(id) { r.E(id+1, a, b) }
\*   rparr     for k, v := range &arr { r.E(id, k, v); Yield(v); arr[2] = 99 }     (no copy: live)
\*   rfunc     for v := range rt.Seq3 { Yield(v) }                                 (yields 1, 2, 3)
\*   parenyield (Yield(a))                                                          (a parenthesised yield statement)
\*   rparrdefer for _, v := range &uarr { defer r.E(id, v, 0) }                     (defer in a loop the rewriter leaves native)
\*   rparrbrk / rparrcnt   for k, v := range &uarr { if r.T(id+1) { break | continue }; r.E(id+2, k, v) }   (no yield: left native)
\*   fordefer  for r.T(id) { defer r.E(id+1, a, b) }                                (defer in a loop without any yield)
\*   elifinit  if r.T(id) { r.E(id+1, a, b) } else if Yield(a); r.T(id+2) { r.E(id+3, a, b) }
\*   rtparam   for _, v := range ts { Yield(v) }   with ts of a type-parameter type ~[]int holding 10, 20, 30
\* Negative controls, inside a closure nested in the generator (no yield inside; must be accepted):
\*   clo-lbreak clo-goto clo-select clo-defer clo-rfunc clo-rparr clo-fall clo-selbrk
\*   clo-lrange  func() { L: for _, v := range []int{10, 20} { for r.T(id) { r.E(id+1, v, 0); continue L }; r.E(id+2, v, 0) } }()
\* (lrange is the same labelled range loop in the generator itself with Yield(v) in place of r.E(id+1, v, 0))
\* and a SUPPORTED shape used by C13 (a three-clause loop inside a nested closure whose variable is captured by
\* closures outliving the iteration: per-iteration variables of go >= 1.22 must be preserved there):
\*   clo-loopvar  func() { var fs []func() int; for i := 0; i < 3; i++ { fs = append(fs, func() int { return i }) };
\*                         for _, f := range fs { r.E(id, f(), 0) } }()
UY(v) == [k |-> "yield", v |-> v]
UVar(n) == [k |-> "var", n |-> n]
ULit(n) == [k |-> "lit", v |-> n]
UEff(id) == [k |-> "eff", id |-> id]
UEffX(id, v) == [k |-> "effx", id |-> id, v |-> v]
UT(id) == [k |-> "t", id |-> id]
UFor(lab, id, body) == [k |-> "for", init |-> None, c |-> UT(id), post |-> None, body |-> body, lab |-> lab]
UIf(id, a, b) == [k |-> "if", init |-> None, c |-> UT(id), a |-> a, b |-> b]
UCase(g, body, ft) == [g |-> g, body |-> body, ft |-> ft]
URange(kind, id, body) == [k |-> "range", id |-> id, kind |-> kind, xf |-> "var", kf |-> "def", vf |-> "def", wrap |-> "none", body |-> body]
Desugar(s) ==
  LET id == s.id IN
  CASE s.u = "lbreak" -> <<UFor("L", id, <<UFor("", id + 1, <<UY(UVar("a")), [k |-> "lbreak", lab |-> "L"]>>)>>)>>
    [] s.u = "lcont"  -> <<UFor("L", id, <<UFor("", id + 1, <<UY(UVar("a")), [k |-> "lcont", lab |-> "L"]>>), UEff(id + 2)>>)>>
    [] s.u = "goto"   -> <<UIf(id, <<>>, <<UY(UVar("a"))>>), UEff(id + 1)>>
    [] s.u = "select" -> <<UY(ULit(7))>>
    [] s.u = "selbrk" -> <<UIf(id, <<>>, <<UEffX(id + 1, ULit(7))>>)>>
    [] s.u = "defer"  -> <<[k |-> "defer", id |-> id]>>
    [] s.u = "fallyield" -> <<[k |-> "switch", init |-> None, form |-> "tag", c |-> UT(id),
                               cases |-> <<UCase("t", <<UY(UVar("a"))>>, TRUE), UCase("d", <<UY(UVar("b"))>>, FALSE)>>]>>
    [] s.u = "ifinit" -> <<UY(UVar("a")), UIf(id, <<UEff(id + 1)>>, <<>>)>>
    [] s.u = "rparr"  -> <<URange("parray", id, <<[k |-> "effkv", id |-> id], UY(UVar("v")), [k |-> "mut", op |-> "aset", j |-> 2]>>)>>
    [] s.u = "rfunc"  -> <<UY(ULit(1)), UY(ULit(2)), UY(ULit(3))>>
    [] s.u = "rtparam" -> <<UY(ULit(10)), UY(ULit(20)), UY(ULit(30))>>
    [] s.u = "parenyield" -> <<UY(UVar("a"))>>
    [] s.u = "rparrdefer" -> <<[k |-> "deferv", id |-> id, x |-> 10], [k |-> "deferv", id |-> id, x |-> 20], [k |-> "deferv", id |-> id, x |-> 30]>>
    [] s.u = "fordefer" -> <<UFor("", id, <<[k |-> "defer", id |-> id + 1]>>)>>
    [] s.u = "rparrbrk" -> <<URange("parray", id, <<UIf(id + 1, <<[k |-> "break"]>>, <<>>), [k |-> "effkv", id |-> id + 2]>>)>>
    [] s.u = "rparrcnt" -> <<URange("parray", id, <<UIf(id + 1, <<[k |-> "continue"]>>, <<>>), [k |-> "effkv", id |-> id + 2]>>)>>
    [] s.u = "elifinit" -> <<UIf(id, <<UEff(id + 1)>>, <<UY(UVar("a")), UIf(id + 2, <<UEff(id + 3)>>, <<>>)>>)>>
    [] s.u = "lrange"  -> <<UIf(id, <<UY(ULit(10))>>, <<UEffX(id + 2, ULit(10))>>), UIf(id, <<UY(ULit(20))>>, <<UEffX(id + 2, ULit(20))>>)>>
    [] s.u = "clo-lrange" -> <<UIf(id, <<UEffX(id + 1, ULit(10))>>, <<UEffX(id + 2, ULit(10))>>), UIf(id, <<UEffX(id + 1, ULit(20))>>, <<UEffX(id + 2, ULit(20))>>)>>
    [] s.u = "clo-selbrk" -> <<UIf(id, <<>>, <<UEffX(id + 1, ULit(7))>>)>>
    [] s.u = "clo-lbreak" -> <<UFor("L", id, <<UFor("", id + 1, <<UEff(id + 2), [k |-> "lbreak", lab |-> "L"]>>)>>)>>
    [] s.u = "clo-goto"   -> <<UIf(id, <<>>, <<UEff(id + 1)>>), UEff(id + 2)>>
    [] s.u = "clo-select" -> <<UEffX(id, ULit(7))>>
    [] s.u = "clo-defer"  -> <<UEff(id + 1), UEff(id)>>
    [] s.u = "clo-rfunc"  -> <<UEffX(id, ULit(1)), UEffX(id, ULit(2)), UEffX(id, ULit(3))>>
    [] s.u = "clo-rparr"  -> <<URange("parray", id, <<[k |-> "effkv", id |-> id]>>)>>
    [] s.u = "clo-loopvar" -> <<UEffX(id, ULit(0)), UEffX(id, ULit(1)), UEffX(id, ULit(2))>>
    [] s.u = "clo-fall"   -> <<[k |-> "switch", init |-> None, form |-> "tag", c |-> UT(id),
                                cases |-> <<UCase("t", <<UEff(id + 1)>>, TRUE), UCase("d", <<UEff(id + 2)>>, FALSE)>>]>>
UnsupYields(u) == u \in {"elifinit", "parenyield", "lbreak", "lcont", "goto", "select", "fallyield", "ifinit", "rparr", "rfunc", "rtparam", "lrange"}

\* ---------------------------------------------------------------- the interpreter
\* Run(i, w): run coroutine i to its next yield / end / panic:  [st, w]
\* Adv(i, w): it.MoveNext() on iterator i:                      [ok, w]
RECURSIVE LogCaps(_, _, _, _)
LogCaps(w, id, cs, j) == IF cs = <<>> \/ Panicked(w) THEN w ELSE LogCaps(Log(w, <<"e", id, j, w.store[Head(cs)]>>), id, Tail(cs), j + 1)
RECURSIVE Run(_, _), Adv(_, _)
Adv(i, w) ==
  IF w.cos[i].done THEN [ok |-> FALSE, w |-> w]
  ELSE LET r == Run(i, w) IN
       IF r.st = "yield" THEN [ok |-> TRUE, w |-> r.w]
       ELSE IF r.st = "done" THEN
            \* the function body ended: deferred calls run now (LIFO), inside this advance
            LET wd == RunDefers(r.w.cos[i].defers, r.w) IN
            [ok |-> FALSE, w |-> [wd EXCEPT !.cos[i].done = TRUE, !.cos[i].cur = Zero, !.cos[i].k = <<>>, !.cos[i].defers = <<>>]]
       ELSE [ok |-> FALSE, w |-> r.w]

Run(i, w) ==
  LET c == w.cos[i] IN
  IF Panicked(w) THEN [st |-> "panic", w |-> w]
  ELSE IF c.k = <<>> THEN [st |-> "done", w |-> w]
  ELSE LET top == Head(c.k) rest == Tail(c.k) IN
  IF top.t = "sw" THEN Run(i, SetK(w, i, rest))
  ELSE IF top.t = "deleg" THEN                       \* YieldFrom in progress: one delegate step per step
     LET r == Adv(top.it, w) IN
     IF Panicked(r.w) THEN [st |-> "panic", w |-> r.w]
     ELSE IF r.ok THEN [st |-> "yield", w |-> [r.w EXCEPT !.cos[i].cur = r.w.cos[top.it].cur]]
     ELSE Run(i, SetK(r.w, i, rest))
  ELSE IF top.t = "range" THEN                       \* next iteration of a range loop
     LET w1 == Tick(w) IN
     IF Panicked(w1) THEN [st |-> "panic", w |-> w1]
     \* kind "iter":  for k := range it  over the local iterator (instance 2): one advance of it per iteration
     ELSE IF top.s.kind = "iter" THEN
       LET r == Adv(2, w1) IN
       IF Panicked(r.w) THEN [st |-> "panic", w |-> r.w]
       ELSE IF ~r.ok THEN Run(i, SetK(r.w, i, rest))
       ELSE LET cur == r.w.cos[2].cur
                ck == IF top.s.kf = "def" THEN Alloc(r.w, cur) ELSE [id |-> 0, w |-> r.w]
                w2 == IF top.s.kf = "asg" THEN Set(ck.w, c.penv, "kk", cur) ELSE ck.w
                benv == [top.env EXCEPT !.k = CASE top.s.kf = "def" -> ck.id [] top.s.kf = "asg" -> c.penv.kk [] OTHER -> c.penv.none] IN
            Run(i, SetK(w2, i, <<[t |-> "seq", ss |-> top.s.body \o <<EndBody>>, env |-> benv], top>> \o rest))
     ELSE LET nx == RangeNext(top.s, top.st, c.heap, w.flags) IN
       IF ~nx.ok THEN Run(i, SetK(w1, i, rest))
       \* vf = "idx": the index operand kk+1 of  kk, w[kk+1] = k, v  is evaluated (and bounds-checked) first
       ELSE IF top.s.vf = "idx" /\ (Get(w1, c.penv, "kk") + 1 > 7 \/ Get(w1, c.penv, "kk") + 1 < 0)
       THEN [st |-> "panic", w |-> [w1 EXCEPT !.panic = "runtime error: index out of range [" \o ToString(Get(w1, c.penv, "kk") + 1) \o "] with length 8"]]
       ELSE LET fr == [top EXCEPT !.st.idx = @ + 1]
                \* `:=` declares fresh variables for the iteration; `=` assigns kk / vv of the function
                ck == IF top.s.kf = "def" THEN Alloc(w1, nx.k) ELSE [id |-> 0, w |-> w1]
                cv == IF top.s.vf = "def" THEN Alloc(ck.w, nx.v) ELSE [id |-> 0, w |-> ck.w]
                \* vf = "idx":  kk, w[kk+1] = k, v  -- as in an assignment statement the index operand on the
                \* left is evaluated BEFORE kk is assigned: the store goes to w[old kk + 1]
                wi == IF top.s.vf = "idx" THEN [cv.w EXCEPT !.cos[i].heap.w[Get(cv.w, c.penv, "kk") + 2] = nx.v] ELSE cv.w
                w2 == IF top.s.kf = "asg" THEN Set(wi, c.penv, "kk", nx.k) ELSE wi
                w3 == IF top.s.vf = "asg" THEN Set(w2, c.penv, "vv", nx.v) ELSE w2
                benv == [top.env EXCEPT !.k = CASE top.s.kf = "def" -> ck.id [] top.s.kf = "asg" -> c.penv.kk [] OTHER -> c.penv.none,
                                        !.v = CASE top.s.vf = "def" -> cv.id [] top.s.vf = "asg" -> c.penv.vv [] OTHER -> c.penv.none] IN
            Run(i, SetK(w3, i, <<[t |-> "seq", ss |-> top.s.body \o <<EndBody>>, env |-> benv], fr>> \o rest))
  ELSE IF top.t = "loop" THEN                        \* evaluate the condition, enter the body
     LET w1 == Tick(w) IN
     IF Panicked(w1) THEN [st |-> "panic", w |-> w1]
     ELSE LET r == IF IsNone(top.c) THEN [b |-> TRUE, w |-> w1]
                   \* `for cv() {`: the function VARIABLE is read at every evaluation of the condition
                   ELSE IF top.c.k = "cv" THEN (IF Get(w1, top.env, "cv") = 0 THEN ReadTape(w1, 90) ELSE [b |-> FALSE, w |-> w1])
                   \* `for it.MoveNext() {`: a hand-written pull loop over the local iterator variable `it` (instance 2);
                   \* when the variable holds no iterator (flag "nilit": `var it Iter[int]`) the call is a nil dereference,
                   \* raised by the step that evaluates the condition -- not when the loop value is constructed
                   ELSE IF top.c.k = "itn" THEN (IF "nilit" \in w1.flags THEN [b |-> FALSE, w |-> [w1 EXCEPT !.panic = NilDeref]]
                                                 ELSE LET ar == Adv(2, w1) IN [b |-> ar.ok, w |-> ar.w])
                   ELSE ReadTape(w1, top.c.id) IN
       IF Panicked(r.w) THEN [st |-> "panic", w |-> r.w]
       ELSE IF r.b THEN Run(i, SetK(r.w, i, <<[t |-> "seq", ss |-> top.body \o <<EndBody>>, env |-> top.env]>> \o c.k))
       ELSE Run(i, SetK(r.w, i, rest))
  ELSE IF top.ss = <<>> THEN Run(i, SetK(w, i, rest))
  ELSE
    LET s   == Head(top.ss)
        env == top.env
        k1  == <<[top EXCEPT !.ss = Tail(@)]>> \o rest      \* stack after consuming s
    IN
    CASE s.k = "eff"   -> Run(i, SetK(Log(w, <<"e", s.id, Get(w, env, "a"), Get(w, env, "b")>>), i, k1))
      [] s.k = "effkv" -> Run(i, SetK(Log(w, <<"e", s.id, Get(w, env, "k"), Get(w, env, "v")>>), i, k1))
      [] s.k = "effkk" -> Run(i, SetK(Log(w, <<"e", s.id, Get(w, env, "kk"), Get(w, env, "vv")>>), i, k1))
      [] s.k = "effw"  -> Run(i, SetK(Log(w, <<"e", s.id>> \o SubSeq(c.heap.w, 1, 5)), i, k1))
      [] s.k = "mut"   -> Run(i, [SetK(w, i, k1) EXCEPT !.cos[i].heap = Mutate(s, c.heap)])
      [] s.k = "range" -> \* the range expression is evaluated exactly once (xf = "call": through a logging closure; xf = "named": converted to a named type, no effect)
                          LET w1 == IF s.xf = "call" THEN Log(w, <<"x", s.id, 0>>) ELSE w IN
                          IF Panicked(w1) THEN [st |-> "panic", w |-> w1]
                          ELSE Run(i, SetK(w1, i, <<[t |-> "range", s |-> s, st |-> RangeStart(s, c.heap, w.flags), env |-> env]>> \o k1))
      [] s.k = "inc"   -> Run(i, SetK(Set(w, env, s.n, Get(w, env, s.n) + 1), i, k1))
      \* caps = append(caps, func() int { return a }): the closure captures the VARIABLE a of the current scope (a cell)
      [] s.k = "capa"  -> Run(i, [SetK(w, i, k1) EXCEPT !.cos[i].heap.caps = Append(@, env.a)])
      \* for j, f := range caps { r.E(id, j, f()) }: what every captured variable holds now
      [] s.k = "obscaps" -> Run(i, SetK(LogCaps(w, s.id, c.heap.caps, 0), i, k1))
      [] s.k \in {"def", "def2"} -> LET d == ApplyInit(s, env, w) IN
                          Run(i, SetK(d.w, i, <<[top EXCEPT !.ss = Tail(@), !.env = d.env]>> \o rest))
      [] s.k = "effx"  -> LET e == EvalV(s.v, env, w) IN           \* r.E(id, <expr>, 0): observes the value of an expression
                          IF Panicked(e.w) THEN [st |-> "panic", w |-> e.w]
                          ELSE Run(i, SetK(Log(e.w, <<"e", s.id, e.v, 0>>), i, k1))
      [] s.k = "incq"  -> Run(i, SetK(Set(w, c.penv, "qv", Get(w, c.penv, "qv") + 10), i, k1))   \* rt.Level += 10
      [] s.k = "setcv" -> Run(i, SetK(Set(w, c.penv, "cv", 1), i, k1))   \* cv = func() bool { return false }
      [] s.k = "setp"  -> Run(i, SetK(Set(w, c.penv, "pv", 1), i, k1))   \* pscale = func(x int) int { return x * 100 }
      [] s.k = "sets"  -> Run(i, SetK(Set(w, c.penv, "sv", 50), i, k1))  \* s = &box{v: 50}
      [] s.k = "callf" -> Run(i, SetK(Set(w, c.penv, "a", Get(w, c.penv, "a") + 100), i, k1))
      [] s.k = "passign" -> LET x == Get(w, env, "a") a == Log(w, <<"p", s.id, x>>) IN
                            Run(i, SetK(IF Panicked(a) THEN a ELSE Set(a, env, "a", x + 1), i, k1))
      [] s.k = "panic" -> [st |-> "panic", w |-> [SetK(w, i, k1) EXCEPT !.panic = "boom"]]
      [] s.k = "yield" -> LET e == EvalV(s.v, env, w) IN
                          IF Panicked(e.w) THEN [st |-> "panic", w |-> e.w]
                          ELSE [st |-> "yield", w |-> [SetK(e.w, i, k1) EXCEPT !.cos[i].cur = e.v]]
      \* Yield(Dg(r, arg, b)) in a generator of GENERATORS: a new instance is created (nothing of it runs) and its
      \* handle -- here: its instance number -- is the yielded value
      [] s.k = "ygen"  -> LET e == EvalV(s.arg, env, w) IN
                          IF Panicked(e.w) THEN [st |-> "panic", w |-> e.w]
                          ELSE LET sp == Spawn(SetK(e.w, i, k1), s.g, e.v, Get(e.w, env, "b")) IN
                               [st |-> "yield", w |-> [sp.w EXCEPT !.cos[i].cur = sp.id]]
      [] s.k = "yfrom" -> \* the argument is evaluated once, when the statement is reached
                          LET e  == EvalV(s.arg, env, w) IN
                          IF Panicked(e.w) THEN [st |-> "panic", w |-> e.w]
                          ELSE LET sp == Spawn(SetK(e.w, i, k1), s.g, e.v, Get(e.w, env, "b")) IN
                               Run(i, SetK(sp.w, i, <<[t |-> "deleg", it |-> sp.id]>> \o k1))
      \* the local iterator variable  it := D2(r, 3, b)  declared at the top of the function is instance 2 of the
      \* world (created by the family's Start): advanced by hand and / or delegated to (C05: partially consumed,
      \* exhausted and repeatedly delegated iterators)
      [] s.k = "pullit" -> LET r == Adv(2, SetK(w, i, k1)) IN
                           IF Panicked(r.w) THEN [st |-> "panic", w |-> r.w]
                           ELSE Run(i, Log(r.w, <<"e", s.id, IF r.ok THEN r.w.cos[2].cur ELSE 0 - 1, 0>>))
      \* it2 := D2(r, 7, b): a SECOND iterator created inside a step and never advanced: no observable effect
      \* (whatever was exhausted before must stay exhausted, whatever is live must not notice)
      [] s.k = "mk2"   -> Run(i, SetK(w, i, k1))
      [] s.k = "yfromit" -> Run(i, SetK(w, i, <<[t |-> "deleg", it |-> 2]>> \o k1))
      \* nested function literals: an immediately invoked closure  func() { r.E(id, a, b); a++ }()
      [] s.k = "iife"  -> LET w1 == Log(w, <<"e", s.id, Get(w, env, "a"), Get(w, env, "b")>>) IN
                          Run(i, SetK(IF Panicked(w1) THEN w1 ELSE Set(w1, env, "a", Get(w1, env, "a") + 1), i, k1))
      \* ... and a generator LITERAL nested in the generator, capturing its variables by reference, delegated to:
      \*   YieldFrom(func() Iter[int] { r.E(id, a, b); Yield(a); a++; Yield(a); return nil }())
      \* the nested coroutine runs in the ENVIRONMENT of the enclosing one (same cells)
      [] s.k = "nestgen" ->
            LET body == <<[k |-> "eff", id |-> s.id], [k |-> "yield", v |-> [k |-> "var", n |-> "a"]], [k |-> "inc", n |-> "a"],
                          [k |-> "yield", v |-> [k |-> "var", n |-> "a"]]>>
                nid == Len(w.cos) + 1
                w1 == [SetK(w, i, <<[t |-> "deleg", it |-> nid]>> \o k1) EXCEPT
                         !.cos = Append(@, [k |-> <<[t |-> "seq", ss |-> body, env |-> env]>>, cur |-> Zero, done |-> FALSE,
                                            penv |-> c.penv, heap |-> c.heap, defers |-> <<>>])] IN
            Run(i, w1)
      [] s.k = "if"    -> LET ini == ApplyInit(s.init, env, w) r == ReadTape(ini.w, s.c.id) IN
                          IF Panicked(r.w) THEN [st |-> "panic", w |-> r.w]
                          ELSE Run(i, SetK(r.w, i, <<[t |-> "seq", ss |-> IF r.b THEN s.a ELSE s.b, env |-> ini.env]>> \o k1))
      [] s.k = "switch"-> \* an initialiser that is not a declaration (switch Yield(v); tag {..} / switch YieldFrom(g); tag {..})
                          \* is an ordinary statement executed -- and possibly suspended in -- before the tag is evaluated
                          IF ~IsNone(s.init) /\ s.init.k \notin {"def", "def2"}
                          THEN Run(i, SetK(w, i, <<[t |-> "seq", ss |-> <<s.init, [s EXCEPT !.init = None]>>, env |-> env]>> \o k1))
                          ELSE
                          LET ini == ApplyInit(s.init, env, w) r == ReadTape(ini.w, s.c.id) IN
                          IF Panicked(r.w) THEN [st |-> "panic", w |-> r.w]
                          ELSE LET j == SelectCase(s.cases, r.b) IN
                               IF j = 0 THEN Run(i, SetK(r.w, i, k1))
                               ELSE LET \* form "typeb":  switch tv := r.AnyA(id, ..).(type): in the int clause the bound variable
                                        \* (= 1) is observed first:  r.E(id + 1, tv, 0)
                                        pre == IF s.form = "typeb" /\ s.cases[j].g = "t"
                                               THEN <<[k |-> "effx", id |-> s.c.id + 1, v |-> [k |-> "lit", v |-> 1]]>> ELSE <<>> IN
                                    Run(i, SetK(r.w, i, <<[t |-> "seq", ss |-> pre \o CaseStmts(s.cases, j, ini.env), env |-> ini.env], [t |-> "sw"]>> \o k1))
      [] s.k = "$fall" -> \* fallthrough: continue with the next clause (its own scope), still inside the switch
                          Run(i, SetK(w, i, <<[t |-> "seq", ss |-> CaseStmts(s.cases, s.j, s.env), env |-> s.env]>> \o rest))
      [] s.k = "block" -> Run(i, SetK(w, i, <<[t |-> "seq", ss |-> s.body, env |-> env]>> \o k1))
      [] s.k = "for"   -> LET ini == ApplyInit(s.init, env, w)
                              lp  == [t |-> "loop", c |-> s.c, post |-> s.post, body |-> s.body, env |-> ini.env, lab |-> LabOf(s),
                                      \* the variables declared by the initialiser: each iteration has its own copy (Go >= 1.22)
                                      decl |-> IF IsNone(s.init) THEN <<>> ELSE IF s.init.k = "def" THEN <<s.init.n>>
                                               ELSE IF s.init.k = "def2" THEN <<"a", "b">> ELSE <<>>] IN
                          IF IsNone(s.init) \/ s.init.k \in {"def", "def2"} THEN Run(i, SetK(ini.w, i, <<lp>> \o k1))
                          ELSE Run(i, SetK(w, i, <<[t |-> "seq", ss |-> <<s.init>>, env |-> env], lp>> \o k1))
      [] s.k = "break" -> Run(i, SetK(w, i, PastBreakTarget(k1)))
      [] s.k = "lbreak" -> Run(i, SetK(w, i, Tail(ToLabel(k1, s.lab))))                    \* break L
      [] s.k = "lcont"  -> LET kl == ToLabel(k1, s.lab) ni == NextIter(Head(kl), w) IN
                           Run(i, SetK(ni.w, i, PostFrames(ni.lp) \o <<ni.lp>> \o Tail(kl)))   \* continue L
      [] s.k = "defer"  -> \* defer r.E(id, a, b): the arguments are evaluated now, the call runs when the function ends
                           Run(i, [SetK(w, i, k1) EXCEPT !.cos[i].defers = <<<<"e", s.id, Get(w, env, "a"), Get(w, env, "b")>>>> \o @])
      [] s.k = "deferv" -> Run(i, [SetK(w, i, k1) EXCEPT !.cos[i].defers = <<<<"e", s.id, s.x, 0>>>> \o @])     \* defer r.E(id, x, 0)
      [] s.k = "unsup" -> Run(i, SetK(w, i, <<[t |-> "seq", ss |-> Desugar(s), env |-> env]>> \o k1))
      [] s.k \in {"continue", "$endbody"} ->
                          LET kl == ToLoop(k1)
                              \* KF04 (as built): a `continue` under a yielding post statement skips the post
                              skip == s.k = "continue" /\ "KF04" \in w.flags /\ Head(kl).t = "loop" /\ IsYielding(Head(kl).post)
                              ni == NextIter(Head(kl), w) IN
                          Run(i, SetK(ni.w, i, (IF skip THEN <<>> ELSE PostFrames(ni.lp)) \o <<ni.lp>> \o Tail(kl)))
      [] s.k = "return" -> [st |-> "done", w |-> SetK(w, i, <<>>)]
      [] s.k = "retx"   -> \* return <expr>: the operand is evaluated (and discarded), then the generator ends
                           LET w1 == Log(w, <<"v", s.id, 0>>) IN
                           IF Panicked(w1) THEN [st |-> "panic", w |-> w1] ELSE [st |-> "done", w |-> SetK(w1, i, <<>>)]

\* ---------------------------------------------------------------- syntax helpers
RECURSIVE HasY(_), HasYS(_)
HasYS(s) == CASE s.k \in {"yield", "yfrom", "yfromit", "nestgen", "ygen"} -> TRUE
              [] s.k = "unsup" -> UnsupYields(s.u)
              [] s.k = "if"     -> HasY(s.a) \/ HasY(s.b)
              [] s.k = "switch" -> IsYielding(s.init) \/ \E j \in 1..Len(s.cases) : HasY(s.cases[j].body)
              [] s.k \in {"block", "range"} -> HasY(s.body)
              [] s.k = "for"    -> IsYielding(s.init) \/ IsYielding(s.post) \/ HasY(s.body)
              [] OTHER -> FALSE
HasY(ss) == \E j \in 1..Len(ss) : HasYS(ss[j])
\* ---------------------------------------------------------------- a consumer of a generator of generators
\* (rt.GGIt): it keeps every handle the outer generator (instance 1) has delivered and, per MoveNext, performs
\* actions in cyclic order  outer, handle 1, ..., handle n  until one of the INNER iterators delivers a value
\* (returned) or a whole cycle was unproductive (false). Exhausted iterators are advanced again in every cycle:
\* they must stay exhausted, and no iterator may be disturbed by the others.
RECURSIVE GGStep(_, _)
GGStep(w, idle) ==
  LET g == w.gg n == Len(g.hs) IN
  IF Panicked(w) \/ idle > n THEN [ok |-> FALSE, cur |-> 0, w |-> w]
  ELSE IF g.pos = 0 THEN
    LET r == Adv(1, w) IN
    IF Panicked(r.w) THEN [ok |-> FALSE, cur |-> 0, w |-> r.w]
    ELSE IF r.ok THEN GGStep([r.w EXCEPT !.gg = [hs |-> Append(g.hs, r.w.cos[1].cur), pos |-> 1]], 0)
    ELSE GGStep([r.w EXCEPT !.gg.pos = IF n = 0 THEN 0 ELSE 1], idle + 1)
  ELSE
    LET h == g.hs[g.pos] r == Adv(h, w) nxt == (g.pos + 1) % (n + 1) IN
    IF Panicked(r.w) THEN [ok |-> FALSE, cur |-> 0, w |-> r.w]
    ELSE IF r.ok THEN [ok |-> TRUE, cur |-> r.w.cos[h].cur, w |-> [r.w EXCEPT !.gg.pos = nxt]]
    ELSE GGStep([r.w EXCEPT !.gg.pos = nxt], idle + 1)
========================================================================
