------------------------------- MODULE MC_Rnd -------------------------------
(* Larger programs from the SAME grammar, beyond the exhaustive size bound:
   grammar-directed derivation of a program from a tape of natural numbers.
   The harness draws the tapes from VERIF_SEED (the only place where randomness
   enters) and passes them as ndjson lines {"size": n, "ch": [...], "tape": [...]};
   every alternative of the grammar is picked by  choice % number-of-alternatives,
   an exhausted choice tape reads 0.  The derived program is then labelled and run
   by exactly the same reference semantics and emitted in the same format as in
   MC_Src, so the rest of the pipeline is unchanged. *)
EXTENDS MC_Src, IOUtils

Choices == ndJsonDeserialize(IOEnv.VERIF_CHOICES)

Pick(ch) == IF ch = <<>> THEN [c |-> 0, ch |-> <<>>] ELSE [c |-> Head(ch), ch |-> Tail(ch)]
SimpleSeq == <<Eff, IncA, Y(Lit0), Y(VarA), Y(ObsA), Eff, Y(Lit0)>>
InitSeq == <<None, None, Y(Lit0)>>
PostSeq == <<None, PAssign, Y(Lit0), Y(ObsA)>>
CondSeq == <<T0, T0, None>>
JumpSeq(ctx) == <<[k |-> "return"], [k |-> "retx", id |-> 0]>> \o (IF ctx # "top" THEN <<[k |-> "break"]>> ELSE <<>>)
                                                          \o (IF InLoop(ctx) THEN <<[k |-> "continue"], [k |-> "continue"]>> ELSE <<>>)
IsJump(s) == s.k \in {"return", "retx", "break", "continue"}

RECURSIVE DBlock(_, _, _), DStmt(_, _, _)
\* a block of total size n: [v |-> block, ch |-> rest of the choice tape]
DBlock(ch, n, ctx) ==
  IF n = 0 THEN [v |-> <<>>, ch |-> ch]
  ELSE LET p == Pick(ch)
           i == 1 + (p.c % n)                          \* size of the first statement
           s == DStmt(p.ch, i, ctx) IN
       IF IsJump(s.v) THEN [v |-> <<s.v>>, ch |-> s.ch]   \* a jump ends the block (no dead code)
       ELSE LET r == DBlock(s.ch, n - i, ctx) IN [v |-> <<s.v>> \o r.v, ch |-> r.ch]
\* a statement of size n
DStmt(ch, n, ctx) ==
  LET p == Pick(ch) IN
  IF n = 1 THEN
    LET alts == SimpleSeq \o JumpSeq(ctx) IN [v |-> alts[1 + (p.c % Len(alts))], ch |-> p.ch]
  ELSE
    LET kind == p.c % 7 IN
    CASE kind = 0 -> LET a == DBlock(p.ch, n - 1, ctx) IN
                     [v |-> [k |-> "if", init |-> None, c |-> T0, a |-> a.v, b |-> <<>>], ch |-> a.ch]
      [] kind = 1 -> LET q == Pick(p.ch)
                         i == IF n = 2 THEN 1 ELSE 1 + (q.c % (n - 2))
                         a == DBlock(q.ch, i, ctx)
                         b == DBlock(a.ch, n - 1 - i, ctx) IN
                     [v |-> [k |-> "if", init |-> None, c |-> T0, a |-> a.v, b |-> b.v], ch |-> b.ch]
      [] kind \in {2, 3} -> LET q == Pick(p.ch)
                         i == q.c % n
                         a == DBlock(q.ch, i, SwCtx(ctx))
                         d == DBlock(a.ch, n - 1 - i, SwCtx(ctx)) IN
                     [v |-> IF kind = 2 THEN Switch(None, "tag", <<Case("t", a.v), Case("d", d.v)>>)
                                        ELSE Switch(None, "tag", <<Case("d", d.v), Case("t", a.v)>>), ch |-> d.ch]
      [] kind = 4 -> LET b == DBlock(p.ch, n - 1, ctx) IN [v |-> [k |-> "block", body |-> b.v], ch |-> b.ch]
      [] kind \in {5, 6} -> LET q1 == Pick(p.ch) q2 == Pick(q1.ch) q3 == Pick(q2.ch)
                         b == DBlock(q3.ch, n - 1, "loop") IN
                     [v |-> [k |-> "for", init |-> InitSeq[1 + (q1.c % Len(InitSeq))], c |-> CondSeq[1 + (q2.c % Len(CondSeq))],
                                  post |-> PostSeq[1 + (q3.c % Len(PostSeq))], body |-> b.v], ch |-> b.ch]

\* well-formedness filters of the family (the same as in the exhaustive grammar)
RECURSIVE WFB(_)
WFS(s) == CASE s.k = "if" -> WFB(s.a) /\ WFB(s.b) /\ s.a # <<>>
            [] s.k = "switch" -> \A j \in 1..Len(s.cases) : WFB(s.cases[j].body)
            [] s.k = "block" -> WFB(s.body) /\ s.body # <<>>
            [] s.k = "for" -> Productive(s.c, s.body) /\ WFB(s.body) /\ s.body # <<>>
            [] OTHER -> TRUE
WFB(b) == \A j \in 1..Len(b) : WFS(b[j])
Derived(i) == DBlock(Choices[i].ch, Choices[i].size, "top").v
CasesRnd == {i \in 1..Len(Choices) : LET p == Derived(i) IN WFB(p) /\ HasY(p)}

InitRnd == /\ \E i \in CasesRnd : prog = Label(Derived(i)) /\ tape0 = Choices[i].tape
           /\ plen = 0
           /\ w = Start(prog, tape0, {})
           /\ wb = Start(prog, tape0, OpenFlags)
           /\ calls = 0 /\ obs = <<>> /\ obsB = <<>>
SpecRnd == InitRnd /\ [][Next]_vars
=============================================================================
