-------------------------------- MODULE Rec --------------------------------
(* The recorder shared by every specification module and by the Go runtime
   support package rt (harness/rtsrc/rt.go): an effect log, an input tape that
   steers branches and bounds loops, and an event budget.

   A world `w` is any record with at least the fields
       log, tape, budget, panic, fuel
   Every effect / tape read costs one unit of budget; the statement that
   exceeds the budget panics with "budget" -- in the specification and, because
   rt.Rec implements the same rule, in the real run.  An unproductive loop is
   therefore an ordinary comparable panic case and nothing hangs.
   `fuel` is model-only: it bounds loop iterations that spend no budget (a
   grammar mistake); invariant NoSpin turns that into a TLC error. *)
EXTENDS Integers, Sequences, FiniteSets, TLC

None == [none |-> TRUE]
IsNone(v) == "none" \in DOMAIN v
Zero == 0

Panicked(w) == w.panic # ""
(* The panic value of a `panic` statement / panicking call is the opaque token "boom": the property (C18)
   only says that the ORIGINAL value must come out of the advance.  The binding layer instantiates the
   token per run by one of five Go values -- a string, an error value, a pointer, a struct value, a genuine
   runtime error -- selected by PanicKind of the run's initial tape, and maps a recovered value back to
   "boom" only when it IS that value (rt.Boom / rt.PanicStr in harness/rtsrc/rt.go); a wrapped, converted
   or copied value is reported under a description that equals no expectation. *)
PanicKind(tape) == (Len(tape) + Cardinality({i \in 1..Len(tape) : tape[i]})) % 5
Spend(w) == IF w.budget = 0 THEN [w EXCEPT !.panic = "budget"] ELSE [w EXCEPT !.budget = @ - 1]
Tick(w)  == IF w.fuel = 0 THEN [w EXCEPT !.panic = "spin"] ELSE [w EXCEPT !.fuel = @ - 1]

\* append an entry to the log (one unit of budget)
Log(w, e) == LET w1 == Spend(w) IN IF Panicked(w1) THEN w1 ELSE [w1 EXCEPT !.log = Append(@, e)]

\* tape read `r.T(id)`: returns [b, w]; an exhausted tape reads FALSE
ReadTape(w, id) ==
  LET w1 == Spend(w) IN
  IF Panicked(w1) THEN [b |-> FALSE, w |-> w1]
  ELSE IF w1.tape = <<>> THEN [b |-> FALSE, w |-> [w1 EXCEPT !.log = Append(@, <<"t", id, 0>>)]]
  ELSE [b |-> Head(w1.tape),
        w |-> [w1 EXCEPT !.tape = Tail(@), !.log = Append(@, <<"t", id, IF Head(w1.tape) THEN 1 ELSE 0>>)]]

\* the suffix of the log written since world w0
NewLog(w0, w1) == SubSeq(w1.log, Len(w0.log) + 1, Len(w1.log))

Tapes(n) == UNION {[1..m -> BOOLEAN] : m \in 0..n}
=============================================================================
