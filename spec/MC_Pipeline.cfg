SPECIFICATION Spec
CHECK_DEADLOCK FALSE
INVARIANT Idempotent
INVARIANT OutputsAreFunctions
INVARIANT NoOutputWithoutUse
CONSTRAINT Emit
CONSTANTS
 MaxLen = 3
