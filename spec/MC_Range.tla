------------------------------ MODULE MC_Range ------------------------------
(* C10: case generation for the built-in range iterators.  One TLC run
   enumerates
     - every byte string up to MaxLen over a 16-byte boundary alphabet (ASCII,
       continuation bytes, 2/3/4-byte leads and the special second-byte limits,
       invalid bytes) plus the strings supplied by the harness (random, longer),
     - integers -1..MaxInt,
     - slices up to MaxElems elements with every interleaving of up to MaxMuts
       mutations (element store, append, reslice) between iterations,
     - channels with up to MaxElems buffered values, sends between receives, close,
   and emits the expected key/value pairs of Go's range statement. *)
EXTENDS RangeSem, FiniteSets, TLC, Json, IOUtils

CONSTANTS MaxLen, MaxInt, MaxElems, MaxMuts, MapScripts

Alphabet == {0, 65, 127, 128, 191, 194, 223, 224, 160, 237, 159, 240, 144, 244, 143, 255, 239, 189}   \* 239 191 189 = U+FFFD, validly encoded
Strings == UNION {[1..m -> Alphabet] : m \in 0..MaxLen}
\* extra strings from the harness (ndjson lines {"s":[bytes]}), empty sequence when not provided
Extra == IF "VERIF_STRINGS" \in DOMAIN IOEnv /\ IOEnv.VERIF_STRINGS # "" THEN ndJsonDeserialize(IOEnv.VERIF_STRINGS) ELSE <<>>

VARIABLES kind,   \* "string" | "int" | "slice" | "chan"
          inp,    \* the input value
          st,     \* loop state (slices / channels)
          trace   \* events so far: visits and mutations
vars == <<kind, inp, st, trace>>

Visit(k, v) == [op |-> "visit", k |-> k, v |-> v]
PairsToTrace(ps) == [j \in 1..Len(ps) |-> Visit(ps[j][1], ps[j][2])]

\* ---- slices: backing array `cells` (capacity MaxElems + 1), the variable s = cells[1..len],
\*      the loop's snapshot of the length, the next index
SliceInit(n) == [cells |-> [j \in 1..(MaxElems + 1) |-> IF j <= n THEN 10 * j ELSE 0], len |-> n, snap |-> n, idx |-> 0, muts |-> 0, done |-> FALSE, started |-> FALSE]
\* ---- channels: buffered values, closed flag
ChanInit(n) == [buf |-> [j \in 1..n |-> 10 * j], closed |-> FALSE, sent |-> n, muts |-> 0, done |-> FALSE, started |-> FALSE]

\* ---- maps: the scenarios (initial keys incl. the nil interface key 0, a key with nil value,
\*      mutations "at the n-th visit delete / insert key k"); the expected behaviour is not a
\*      single trace: Trace_Map.tla validates what the loops did
MapKeys == 0..3
\* key 4 is a float64 NaN held in the interface key: not equal to itself, so it can be neither looked up nor
\* deleted; it only occurs in the initial population (at most one such entry), the scripts mutate keys 0..3
InitKeys == 0..4
MapMuts == {[at |-> at, op |-> op, k |-> k] : at \in 1..2, op \in {"delete", "insert"}, k \in MapKeys}
MapCases == {[keys |-> ks, nilval |-> nv, script |-> sc] :
               ks \in {s \in SUBSET InitKeys : Cardinality(s) <= 3},
               nv \in {0 - 2, 2},
               sc \in {<<>>} \cup {<<m>> : m \in MapMuts} \cup {<<m1, m2>> : m1 \in MapMuts, m2 \in MapMuts}}

Init == /\ trace = <<>>
        /\ \/ kind = "string" /\ inp \in Strings /\ st = 0
           \/ kind = "string" /\ (\E j \in 1..Len(Extra) : inp = Extra[j].s) /\ st = 0
           \/ kind = "int" /\ inp \in (0 - 1)..MaxInt /\ st = 0
           \/ kind = "slice" /\ inp \in 0..MaxElems /\ st = SliceInit(inp)
           \/ kind = "chan" /\ inp \in 0..MaxElems /\ st = ChanInit(inp)
           \/ MapScripts /\ kind = "map" /\ inp \in MapCases /\ st = 1

\* strings and integers: one step computes the whole loop
Whole == /\ kind \in {"string", "int"} /\ st = 0 /\ st' = 1
         /\ trace' = PairsToTrace(IF kind = "string" THEN RangeString(inp) ELSE RangeInt(inp))
         /\ UNCHANGED <<kind, inp>>

\* slice: next iteration reads the element LIVE, bounded by the length SNAPSHOT
SliceVisit == /\ kind = "slice" /\ ~st.done /\ st.idx < st.snap
              /\ trace' = Append(trace, Visit(st.idx, st.cells[st.idx + 1]))
              /\ st' = [st EXCEPT !.idx = @ + 1, !.started = TRUE]
              /\ UNCHANGED <<kind, inp>>
SliceEnd == /\ kind = "slice" /\ ~st.done /\ st.idx >= st.snap
            /\ trace' = Append(trace, [op |-> "end"]) /\ st' = [st EXCEPT !.done = TRUE] /\ UNCHANGED <<kind, inp>>
\* mutations performed by the loop body (only after the loop has started, before it ended)
SliceMut == /\ kind = "slice" /\ st.started /\ ~st.done /\ st.muts < MaxMuts
            /\ \/ \E j \in 0..(st.len - 1) :                                   \* s[j] = 99 - j
                    /\ trace' = Append(trace, [op |-> "set", j |-> j, v |-> 99 - j])
                    /\ st' = [st EXCEPT !.cells[j + 1] = 99 - j, !.muts = @ + 1]
               \/ /\ st.len <= MaxElems                                        \* s = append(s, 77): within capacity, same array
                  /\ trace' = Append(trace, [op |-> "append", v |-> 77])
                  /\ st' = [st EXCEPT !.cells[st.len + 1] = 77, !.len = @ + 1, !.muts = @ + 1]
               \/ \E m \in 0..(st.len - 1) :                                   \* s = s[:m]
                    /\ trace' = Append(trace, [op |-> "trunc", m |-> m])
                    /\ st' = [st EXCEPT !.len = m, !.muts = @ + 1]
            /\ UNCHANGED <<kind, inp>>

\* channel: receive the oldest buffered value; the loop ends when closed and drained
ChanVisit == /\ kind = "chan" /\ ~st.done /\ st.buf # <<>>
             /\ trace' = Append(trace, Visit(Head(st.buf), 0))
             /\ st' = [st EXCEPT !.buf = Tail(@), !.started = TRUE] /\ UNCHANGED <<kind, inp>>
ChanEnd == /\ kind = "chan" /\ ~st.done /\ st.buf = <<>> /\ st.closed
           /\ trace' = Append(trace, [op |-> "end"]) /\ st' = [st EXCEPT !.done = TRUE] /\ UNCHANGED <<kind, inp>>
ChanMut == /\ kind = "chan" /\ ~st.done /\ ~st.closed
           /\ \/ /\ st.muts < MaxMuts /\ Len(st.buf) < MaxElems /\ st.started        \* ch <- v  (from the loop body)
                 /\ trace' = Append(trace, [op |-> "send", v |-> 10 * (st.sent + 1)])
                 /\ st' = [st EXCEPT !.buf = Append(@, 10 * (st.sent + 1)), !.sent = @ + 1, !.muts = @ + 1]
              \/ /\ (st.started \/ trace = <<>>)                                       \* close(ch): before the loop or from the body
                 /\ trace' = Append(trace, [op |-> "close"])
                 /\ st' = [st EXCEPT !.closed = TRUE]
           /\ UNCHANGED <<kind, inp>>

Next == Whole \/ SliceVisit \/ SliceEnd \/ SliceMut \/ ChanVisit \/ ChanEnd \/ ChanMut
Spec == Init /\ [][Next]_vars

\* a slice loop visits at most the snapshot length; keys are 0,1,2,... in order
VisitsOf(t) == SelectSeq(t, LAMBDA e : e.op = "visit")
KeysInOrder == kind = "slice" => \A j \in 1..Len(VisitsOf(trace)) : VisitsOf(trace)[j].k = j - 1
StringKeysIncrease == kind = "string" => \A j \in 1..(Len(trace) - 1) : trace[j].k < trace[j + 1].k

Terminal == \/ kind \in {"string", "int", "map"} /\ st = 1
            \/ kind \in {"slice", "chan"} /\ st.done
Emit == Terminal => PrintT(ToJson([kind |-> kind, inp |-> inp, trace |-> trace]))
=============================================================================
