------------------------------ MODULE MC_RndSeq ------------------------------
(* C08 beyond the exhaustive bound: larger combinator terms derived from seeded
   choice tapes with the grammar of Terms.tla (every alternative is picked by
   choice % number-of-alternatives); same machine, same reference, same invariants
   (RefAgree: CPS machine = structured reference), same case emission as MC_Seq. *)
EXTENDS MC_Seq, IOUtils

Choices == ndJsonDeserialize(IOEnv.VERIF_CHOICES)
Pick(ch) == IF ch = <<>> THEN [c |-> 0, ch |-> <<>>] ELSE [c |-> Head(ch), ch |-> Tail(ch)]
PreSeq == <<<<>>, <<[k |-> "inc"]>>, <<[k |-> "eff", id |-> 1]>>, <<[k |-> "eff", id |-> 1], [k |-> "inc"]>>>>
VSeq == <<[k |-> "lit", v |-> 5], [k |-> "x"]>>
CSeq == <<[id |-> 2], [id |-> 2], None>>
PSeq == <<None, [id |-> 3]>>
LeafSeq == <<[k |-> "sig", t |-> "normal"], [k |-> "sig", t |-> "break"], [k |-> "sig", t |-> "continue"], [k |-> "sig", t |-> "return"],
             [k |-> "retval", v |-> [k |-> "lit", v |-> 5]], [k |-> "retval", v |-> [k |-> "x"]], [k |-> "sig", t |-> "normal"]>>

RECURSIVE DTerm(_, _), DThunk(_, _, _)
\* a term of size n: [v, ch]
DTerm(ch, n) ==
  LET p == Pick(ch) IN
  IF n <= 1 THEN [v |-> LeafSeq[1 + (p.c % Len(LeafSeq))], ch |-> p.ch]
  ELSE LET kind == p.c % 8 IN
    CASE kind \in {0, 1} -> LET q == Pick(p.ch) f == DThunk(q.ch, n - 1, 0) IN
                            [v |-> [k |-> "bind", v |-> VSeq[1 + (q.c % 2)], f |-> f.v], ch |-> f.ch]
      [] kind = 2 -> LET f == DThunk(p.ch, n - 1, 0) IN [v |-> [k |-> "delay", f |-> f.v], ch |-> f.ch]
      [] kind = 3 -> IF n = 2 THEN DTerm(p.ch, 1)
                     ELSE LET q == Pick(p.ch) i == 1 + (q.c % (n - 2))
                              a == DTerm(q.ch, i) b == DTerm(a.ch, n - 1 - i) IN
                          [v |-> [k |-> "comb", a |-> a.v, b |-> b.v], ch |-> b.ch]
      \* seq.Breakable(body)
      [] kind = 6 -> LET b == DTerm(p.ch, n - 1) IN [v |-> [k |-> "brk", body |-> b.v], ch |-> b.ch]
      \* seq.ForPost(cond, post, body)
      [] kind = 7 -> IF n = 2 THEN DTerm(p.ch, 1)
                     ELSE LET q == Pick(p.ch) i == 1 + (q.c % (n - 2))
                              a == DTerm(q.ch, i) b == DTerm(a.ch, n - 1 - i) IN
                          [v |-> [k |-> "forpost", c |-> [id |-> 2], post |-> a.v, body |-> b.v], ch |-> b.ch]
      [] kind \in {4, 5} -> LET q1 == Pick(p.ch) q2 == Pick(q1.ch) b == DTerm(q2.ch, n - 1) IN
                            [v |-> [k |-> "for", c |-> CSeq[1 + (q1.c % Len(CSeq))], p |-> PSeq[1 + (q2.c % Len(PSeq))], body |-> b.v], ch |-> b.ch]
\* a thunk whose returned term(s) have total size m
DThunk(ch, m, rl) ==
  LET p == Pick(ch) IN
  IF m >= 2 /\ p.c % 3 = 0
  THEN LET q == Pick(p.ch) i == 1 + (q.c % (m - 1))
           a == DTerm(q.ch, i) b == DTerm(a.ch, m - i) IN
       [v |-> [rl |-> rl, pre |-> <<>>, body |-> [k |-> "ifret", id |-> 4, a |-> a.v, b |-> b.v]], ch |-> b.ch]
  ELSE LET q == Pick(p.ch) e == DTerm(q.ch, m) IN
       [v |-> [rl |-> rl, pre |-> PreSeq[1 + (q.c % Len(PreSeq))], body |-> [k |-> "ret", e |-> e.v]], ch |-> e.ch]

DerivedT(i) == DTerm(Choices[i].ch, Choices[i].size).v
CasesRnd == {i \in 1..Len(Choices) : WF(DerivedT(i))}
InitRnd == /\ \E i \in CasesRnd : term = DerivedT(i) /\ tape0 = Choices[i].tape
           /\ w = W0(tape0, Budget)
           /\ g = NewGen(term, w)
           /\ calls = 0 /\ obs = <<>>
SpecRnd == InitRnd /\ [][Next]_vars
=============================================================================
