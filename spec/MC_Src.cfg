SPECIFICATION Spec
CHECK_DEADLOCK FALSE
INVARIANT NoSpin
INVARIANT LazyStart
PROPERTY DoneStaysDone
CONSTRAINT Emit
CONSTANTS
 Family = "ctl"
 MaxSize = 3
 TapeLen = 3
 MaxCalls = 5
 Budget = 30
 OpenFlags = {}
 Lazy = FALSE
 TapeRep = 0
 PrefixLen = 0
