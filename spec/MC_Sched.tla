------------------------------ MODULE MC_Sched ------------------------------
(* C14: iterators are independent.  K iterators are created first (same
   generator function several times, different functions, recursive delegation),
   then advanced in an arbitrary interleaving with at most M advances each; TLC
   enumerates every schedule.  Each iterator lives in its own world (own
   recorder, tape and store): the specification of independence IS that the
   per-iterator observations do not depend on the schedule (invariant
   SoloAgree: equal to the solo run), so the expected per-iterator traces emitted
   here are what every interleaved -- and every concurrent -- real run must show.
   The concurrent replay adds a bystander: one more goroutine consumes a generator of another ELEMENT TYPE
   (string; hand-written, fixed solo sequence) at the same time -- independence also holds across
   instantiations of the generic runtime -- and runs first in every job, before anything is warmed up. *)
EXTENDS SrcSyntax, Json

CONSTANTS K, M, Budget

Lit0 == [k |-> "lit", v |-> 0]
VarA == [k |-> "var", n |-> "a"]
Y(v) == [k |-> "yield", v |-> v]
Eff == [k |-> "eff", id |-> 0]
IncA == [k |-> "inc", n |-> "a"]
YF(g, arg) == [k |-> "yfrom", g |-> g, arg |-> arg]
D2 == <<Y(VarA), [k |-> "eff", id |-> 91], Y([k |-> "lit", v |-> 5])>>
D3 == <<[k |-> "if", init |-> None, c |-> [k |-> "t", id |-> 92], a |-> <<Y([k |-> "lit", v |-> 6])>>, b |-> <<>>]>>
D4 == <<[k |-> "if", init |-> None, c |-> [k |-> "t", id |-> 93],
         a |-> <<YF(4, [k |-> "add", n |-> "a", d |-> 1]), Y(VarA), YF(4, [k |-> "add", n |-> "a", d |-> 1])>>, b |-> <<>>]>>

RH(kind, kf, vf, body) == [k |-> "range", id |-> 0, kind |-> kind, xf |-> "var", kf |-> kf, vf |-> vf, wrap |-> "none", body |-> body]
\* the generator functions of the schedule family
Gens == <<
  \* counter loop with local state:  for r.T() { a++; r.E(); Yield(a) }; r.E()
  Label(<<[k |-> "for", init |-> None, c |-> T0, post |-> None, body |-> <<IncA, Eff, Y(VarA)>>], Eff>>),
  \* recursive delegation (tree walk) followed by a yield
  Label(<<YF(4, VarA), Y(Lit0)>>),
  \* closure state + switch:  f(); Yield(a); switch r.T() { case true: Yield(lit); default: a++ }; Yield(a)
  Label(<<[k |-> "callf"], Y(VarA),
          Switch(None, "tag", <<Case("t", <<Y(Lit0)>>), Case("d", <<IncA>>)>>), Y([k |-> "obs", id |-> 0, n |-> "a"])>>),
  \* range loops backed by the runtime's iterators: empty integer range, one-entry map, string, slice
  Label(<<RH("int0", "def", "none", <<[k |-> "effkv", id |-> 0]>>), RH("map1", "def", "def", <<[k |-> "effkv", id |-> 0], Y([k |-> "var", n |-> "v"])>>),
          RH("string", "def", "def", <<[k |-> "effkv", id |-> 0]>>), RH("slice", "blank", "def", <<Y([k |-> "var", n |-> "v"])>>), Y(VarA)>>)
>>
NG == Len(Gens)
\* each iterator gets its own input tape (by position in the tuple)
TapeOf(j) == CASE j = 1 -> <<TRUE, TRUE, FALSE>> [] j = 2 -> <<TRUE, FALSE, TRUE>> [] OTHER -> <<FALSE, TRUE, TRUE>>
Fresh(g, j) == Spawn(MW0(<<Gens[g], D2, D3, D4>>, TapeOf(j), Budget, {}), 1, j, 2).w

VARIABLES tup, ws, sched, obs
vars == <<tup, ws, sched, obs>>
Init == /\ tup \in [1..K -> 1..NG]
        /\ ws = [j \in 1..K |-> Fresh(tup[j], j)]
        /\ sched = <<>>
        /\ obs = [j \in 1..K |-> <<>>]
Advance(j) ==
  /\ Len(obs[j]) < M /\ ~Panicked(ws[j])
  /\ LET r == Adv(1, ws[j]) IN
     /\ ws' = [ws EXCEPT ![j] = r.w]
     /\ obs' = [obs EXCEPT ![j] = Append(@, [op |-> "next", ok |-> r.ok, cur |-> r.w.cos[1].cur, panic |-> r.w.panic, effs |-> NewLog(ws[j], r.w)])]
  /\ sched' = Append(sched, j)
  /\ UNCHANGED tup
Next == \E j \in 1..K : Advance(j)
Spec == Init /\ [][Next]_vars

\* the solo run of iterator j for n advances
RECURSIVE Solo(_, _, _)
Solo(w, n, acc) == IF n = 0 \/ Panicked(w) THEN acc
                   ELSE LET r == Adv(1, w) IN
                        Solo(r.w, n - 1, Append(acc, [op |-> "next", ok |-> r.ok, cur |-> r.w.cos[1].cur, panic |-> r.w.panic, effs |-> NewLog(w, r.w)]))
SoloAgree == \A j \in 1..K : obs[j] = Solo(Fresh(tup[j], j), Len(obs[j]), <<>>)

Done == \A j \in 1..K : Len(obs[j]) = M \/ Panicked(ws[j])
Emit == Done => PrintT(ToJson([tup |-> tup, sched |-> sched, obs |-> obs, gens |-> Gens, tapes |-> [j \in 1..K |-> TapeOf(j)]]))
EmitGens == PrintT(ToJson([gens |-> Gens]))
=============================================================================
