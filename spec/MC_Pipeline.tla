---------------------------- MODULE MC_Pipeline ----------------------------
(* Scenario enumeration for C15 / C16: a small universe of files (a package p
   with a generator source, optional sibling files, a test source, a second
   source, a source that imports but does not use the API, a sub-package, and a
   second package q) and every script of up to MaxLen actions over it:
     gen(d)        run the tool in package directory d
     add(f) / del(f)   unrelated file appears / disappears
     edit          the generator source a_co.go gets its second content
     stale         a stale file is planted in the tool's temporary directory p_tmp
   TLC explores the abstract file system under the ideal tool (Pipeline.tla) and
   checks the design-level properties (idempotence, exactly the derived files,
   independence); every script is emitted and replayed on the real tool, whose
   recorded snapshots are validated by Trace_Pipeline.tla. *)
EXTENDS Pipeline, TLC, Json

CONSTANTS MaxLen

P == <<"p">>
Sub == <<"p", "sub">>
Q == <<"q">>
F(dir, base, suffix, content) == [dir |-> dir, base |-> base, suffix |-> suffix, content |-> content]
\* content ids: 1,2 = two versions of the generator source a; 3 plain sibling; 4 test source;
\* 5 second source b; 6 source that imports but does not use the API; 7 sub-package source; 8 source of package q
\* 9 = a source of p that imports the sub-package p/sub (only meaningful while p/sub/c_co.go exists)
Uses == [c \in 1..20 |-> c \in {1, 2, 4, 5, 7, 8, 9}]
GenOf(c) == 100 + c
Base == {F(P, "a", "_co.go", 1)}
Optional == {F(P, "types", ".go", 3), F(P, "a", "_co_test.go", 4), F(P, "b", "_co.go", 5),
             F(P, "noapi", "_co.go", 6), F(Sub, "c", "_co.go", 7), F(Q, "d", "_co.go", 8), F(P, "usesub", "_co.go", 9)}
\* a file system is well formed when every import can be resolved: usesub needs the sub-package's source
DepOK(s) == F(P, "usesub", "_co.go", 9) \in s => F(Sub, "c", "_co.go", 7) \in s

VARIABLES fs, script, stale
vars == <<fs, script, stale>>
Init == /\ \E opt \in SUBSET Optional : Cardinality(opt) <= 2 /\ fs = Base \cup opt /\ DepOK(fs)
        /\ script = <<[op |-> "init", files |-> {Path(f) : f \in fs}]>> /\ stale = FALSE
Step(a) == script' = Append(script, a)
Gen(d) == /\ \E f \in fs : Under(f, d) /\ IsSource(f)                   \* d is a package directory holding sources of the tool
          /\ fs' = GoGenResult(fs, d, Uses, GenOf) /\ stale' = FALSE     \* the tool leaves no temporary directory
          /\ Step([op |-> "gen", dir |-> d])
Add == \E f \in Optional : Path(f) \notin {Path(g) : g \in fs} /\ DepOK(fs \cup {f}) /\ fs' = fs \cup {f} /\ Step([op |-> "add", file |-> Path(f)]) /\ UNCHANGED stale
Del == \E f \in fs : f \in Optional /\ DepOK(fs \ {f}) /\ fs' = fs \ {f} /\ Step([op |-> "del", file |-> Path(f)]) /\ UNCHANGED stale
Edit == /\ F(P, "a", "_co.go", 1) \in fs
        /\ fs' = (fs \ {F(P, "a", "_co.go", 1)}) \cup {F(P, "a", "_co.go", 2)} /\ Step([op |-> "edit"]) /\ UNCHANGED stale
Stale == ~stale /\ stale' = TRUE /\ Step([op |-> "stale"]) /\ UNCHANGED fs
Next == /\ Len(script) <= MaxLen
        /\ (Gen(P) \/ Gen(Q) \/ Add \/ Del \/ Edit \/ Stale)
Spec == Init /\ [][Next]_vars

\* ---- design-level properties of the ideal tool
Sources == {f \in fs : IsSource(f)}
\* running the tool again changes nothing
Idempotent == \A d \in {P, Q} : LET once == GoGenResult(fs, d, Uses, GenOf) IN GoGenResult(once, d, Uses, GenOf) = once
\* outputs depend on their own source only: the derived file of a source is the same in every file system containing it
OutputsAreFunctions == \A f \in fs : ~IsSource(f) /\ f.content > 100 =>
                          (\A g \in fs : IsSource(g) /\ Derived(g) = Path(f) => f.content = GenOf(g.content) \/ f.content = GenOf(IF g.content = 2 THEN 1 ELSE g.content))
\* nothing is produced for a source that does not use the API
NoOutputWithoutUse == \A f \in fs : (IsSource(f) /\ ~Uses[f.content]) => Derived(f) \notin {Path(g) : g \in fs}

LastIsGen == script[Len(script)].op = "gen"
Emit == (Len(script) > 1 /\ LastIsGen) => PrintT(ToJson([script |-> script]))
=============================================================================
