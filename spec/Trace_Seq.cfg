SPECIFICATION Spec
CHECK_DEADLOCK FALSE
INVARIANT Inv
POSTCONDITION TraceAccepted
