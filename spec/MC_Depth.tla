------------------------------ MODULE MC_Depth ------------------------------
(* C17: while an iterator is advanced, the number of CPS activations kept on the
   stack (`depth` of SeqMachine) is bounded independently of how many loop
   iterations run between two yields.  Family: every well-formed term that
   contains a loop, under periodic tapes (a pattern of <= 3 bits repeated Reps
   times), so that runs with many consecutive non-yielding iterations occur.
   Each case is emitted with the number of loop iterations of its first advance;
   the harness replays the periodic cases on the real runtime with the pattern
   repeated 10^5 - 10^6 times and samples the real call depth. *)
EXTENDS Terms, Json

CONSTANTS MaxSize, MaxCalls, Reps, Budget, PrefixLen

RECURSIVE HasFor(_), Size(_)
ThunkTerms(f) == IF f.body.k = "ret" THEN {f.body.e} ELSE {f.body.a, f.body.b}
HasFor(t) == CASE t.k \in {"for", "forpost"} -> TRUE
               [] t.k \in {"bind", "bindrecv", "delay"} -> \E e \in ThunkTerms(t.f) : HasFor(e)
               [] t.k = "comb" -> HasFor(t.a) \/ HasFor(t.b)
               [] t.k = "brk" -> HasFor(t.body)
               [] OTHER -> FALSE
Max(S) == CHOOSE x \in S : \A y \in S : y <= x
Size(t) == CASE t.k \in {"for", "brk"} -> 1 + Size(t.body)
             [] t.k \in {"bind", "bindrecv", "delay"} -> 1 + Max({Size(e) : e \in ThunkTerms(t.f)})
             [] t.k = "comb" -> 1 + Size(t.a) + Size(t.b)
             [] t.k = "forpost" -> 1 + Size(t.post) + Size(t.body)
             [] OTHER -> 1
RECURSIVE Rep(_, _)
Rep(p, n) == IF n = 0 THEN <<>> ELSE p \o Rep(p, n - 1)
Patterns == Tapes(3) \ {<<>>}
LoopTerms == {t \in TermsUpTo(MaxSize, FALSE) : HasFor(t)}

VARIABLES term, pre, pat, g, w, calls, obs
vars == <<term, pre, pat, g, w, calls, obs>>
Init == /\ term \in LoopTerms /\ pat \in Patterns /\ pre \in Tapes(PrefixLen)
        /\ w = W0(pre \o Rep(pat, Reps), Budget) /\ g = NewGen(term, w)
        /\ calls = 0 /\ obs = <<>>
MoveNext ==
  /\ calls < MaxCalls /\ ~Panicked(w)
  /\ LET r == DoMoveNext(g, w) IN
     /\ g' = r.g /\ w' = r.w
     /\ obs' = Append(obs, [ok |-> r.ok, panic |-> r.w.panic, reads |-> Len(NewLog(w, r.w)), maxd |-> r.w.maxd])
  /\ calls' = calls + 1 /\ UNCHANGED <<term, pre, pat>>
Next == MoveNext
Spec == Init /\ [][Next]_vars

\* the stack needed by one advance depends on the shape of the term, not on the iteration count
DepthBounded == w.maxd <= 6 * Size(term) + 6
NoSpin == w.panic # "spin"
Done == calls = MaxCalls \/ Panicked(w)
Emit == Done => PrintT(ToJson([term |-> term, pre |-> pre, tape |-> pat, obs |-> obs, size |-> Size(term)]))
=============================================================================
