SPECIFICATION Spec
CHECK_DEADLOCK FALSE
INVARIANT NoSpin
CONSTRAINT Emit
CONSTANTS
 MaxSize = 3
 TapeLen = 3
 Budget = 60
