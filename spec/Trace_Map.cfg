SPECIFICATION Spec
CHECK_DEADLOCK FALSE
POSTCONDITION TraceAccepted
