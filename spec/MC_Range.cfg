SPECIFICATION Spec
CHECK_DEADLOCK FALSE
INVARIANT KeysInOrder
INVARIANT StringKeysIncrease
CONSTRAINT Emit
CONSTANTS
 MaxLen = 3
 MaxInt = 4
 MaxElems = 3
 MaxMuts = 2
 MapScripts = TRUE
