----------------------------- MODULE SrcSyntax -----------------------------
(* Syntax-level operators on source programs (see CoSource.tla for the AST):
   canonical labelling, and the grammar of program families enumerated by size
   with a dynamic-programming table (each level is computed once from the levels
   below; TLC caches only zero-arity definitions, a plainly recursive grammar is
   recomputed exponentially often).  The families over which the properties
   quantify are alphabets handed to this grammar -- TLC, not Go code, decides
   what the universe of cases is. *)
EXTENDS CoSource

\* ---------------------------------------------------------------- labelling
\* Effects, tape reads and auto literals are numbered by source position, so two
\* occurrences of the same statement are distinguishable in the log while the
\* grammar does not multiply programs by label values.  Label threads a counter:
\* every node with an `id` gets the next number; a literal 0 becomes 100 + number.
RECURSIVE LabV(_, _)
LabV(ve, n) ==
  CASE ve.k = "obs" -> [v |-> [ve EXCEPT !.id = n], n |-> n + 1]
    [] ve.k \in {"neg", "paren", "w1", "b1", "fresh"} -> LET r == LabV(ve.e, n) IN [v |-> [ve EXCEPT !.e = r.v], n |-> r.n]
    [] ve.k = "lit" /\ ve.v = 0 -> [v |-> [ve EXCEPT !.v = 100 + n], n |-> n + 1]
    [] OTHER -> [v |-> ve, n |-> n]
LabC(c, n) == IF IsNone(c) THEN [v |-> c, n |-> n] ELSE [v |-> [c EXCEPT !.id = n], n |-> n + 1]
LabSimple(s, n) ==   \* simple statements, initialisers and post statements
  IF IsNone(s) THEN [v |-> s, n |-> n]
  ELSE CASE s.k \in {"eff", "passign", "effkv", "effkk", "effw", "retx", "pullit", "iife", "nestgen", "obscaps"} -> [v |-> [s EXCEPT !.id = n], n |-> n + 1]
         [] s.k = "yield" -> LET r == LabV(s.v, n) IN [v |-> [s EXCEPT !.v = r.v], n |-> r.n]
         [] s.k = "effx" -> LET r == LabV(s.v, n + 1) IN [v |-> [s EXCEPT !.id = n, !.v = r.v], n |-> r.n]
         [] s.k = "yfrom" -> LET r == LabV(s.arg, n) IN [v |-> [s EXCEPT !.arg = r.v], n |-> r.n]
         [] OTHER -> [v |-> s, n |-> n]
RECURSIVE LabB(_, _), LabS(_, _), LabCases(_, _)
LabB(ss, n) ==
  IF ss = <<>> THEN [v |-> <<>>, n |-> n]
  ELSE LET h == LabS(Head(ss), n) t == LabB(Tail(ss), h.n) IN [v |-> <<h.v>> \o t.v, n |-> t.n]
LabCases(cs, n) ==
  IF cs = <<>> THEN [v |-> <<>>, n |-> n]
  ELSE LET h == LabB(Head(cs).body, n) t == LabCases(Tail(cs), h.n) IN
       [v |-> <<[Head(cs) EXCEPT !.body = h.v]>> \o t.v, n |-> t.n]
LabS(s, n) ==
  CASE s.k = "if" -> LET c == LabC(s.c, n) a == LabB(s.a, c.n) b == LabB(s.b, a.n) IN
                     [v |-> [s EXCEPT !.c = c.v, !.a = a.v, !.b = b.v], n |-> b.n]
    [] s.k = "switch" -> LET i == LabSimple(s.init, n) c == LabC(s.c, i.n) cs == LabCases(s.cases, IF s.form = "typeb" THEN c.n + 1 ELSE c.n) IN
                     [v |-> [s EXCEPT !.init = i.v, !.c = c.v, !.cases = cs.v], n |-> cs.n]
    [] s.k = "block" -> LET b == LabB(s.body, n) IN [v |-> [s EXCEPT !.body = b.v], n |-> b.n]
    [] s.k = "unsup" -> [v |-> [s EXCEPT !.id = n], n |-> n + 4]      \* four ids reserved for the parts of the construct
    [] s.k = "range" -> LET b == LabB(s.body, n + 1) IN [v |-> [s EXCEPT !.id = n, !.body = b.v], n |-> b.n]
    [] s.k = "for" -> LET i == LabSimple(s.init, n) c == LabC(s.c, i.n) p == LabSimple(s.post, c.n) b == LabB(s.body, p.n) IN
                     [v |-> [s EXCEPT !.init = i.v, !.c = c.v, !.post = p.v, !.body = b.v], n |-> b.n]
    [] OTHER -> LabSimple(s, n)
Label(prog) == LabB(prog, 1).v

\* ---------------------------------------------------------------- grammar by size
\* An alphabet A is a record
\*   simple  : set of simple statements (size 1)
\*   inits   : set of `for` initialisers (None | statement)
\*   posts   : set of `for` post statements (None | statement)
\*   conds   : set of `for` conditions (None | [k:"t",id:0])
\*   ifinits : set of `if`/`switch` initialisers (None | def)
\*   swinits : (optional) set of initialisers of tag switches, may yield / delegate
\*   kinds   : subset of {"if","ifelse","switch","switchd","tswitch","block","for"}
\*   jumps   : subset of {"return","break","continue"}
\*   ranges  : (only with kind "range") set of range-loop headers
\* Size = number of statements (initialisers, conditions and posts are free).
\* Contexts decide which jumps are legal: top | loop | sw | loopsw.
Ctxs == {"top", "loop", "sw", "loopsw"}
InLoop(ctx) == ctx \in {"loop", "loopsw"}
SwCtx(ctx) == IF InLoop(ctx) THEN "loopsw" ELSE "sw"
T0 == [k |-> "t", id |-> 0]
Jumps(A, ctx) == (IF "retx" \in A.jumps THEN {[k |-> "retx", id |-> 0]} ELSE {}) \cup {[k |-> j] : j \in A.jumps \cap ({"return"} \cup (IF ctx # "top" THEN {"break"} ELSE {})
                                                           \cup (IF InLoop(ctx) THEN {"continue"} ELSE {}))}
\* an infinite loop must make progress: its first body statement spends budget, yields or leaves
Productive(c, body) == ~IsNone(c) \/ (body # <<>> /\ Head(body).k \in {"eff", "effx", "obscaps", "unsup", "pullit", "iife", "nestgen", "yield", "ygen", "yfrom", "if", "switch", "break", "return", "retx", "panic"})
Case(g, body) == [g |-> g, body |-> body, ft |-> FALSE]
\* initialisers of a tag switch: the optional field swinits of the alphabet (a yielding / delegating simple
\* statement:  switch Yield(v); tag { .. }), otherwise the if-initialisers
SwInits(A) == IF "swinits" \in DOMAIN A THEN A.swinits ELSE A.ifinits
Switch(init, form, cases) == [k |-> "switch", init |-> init, form |-> form, c |-> T0, cases |-> cases]

\* composite statements of size n in context ctx, from the blocks of smaller size  B(i, ctx)
Composite(A, n, ctx, B(_, _)) ==
     (IF "if" \in A.kinds THEN {[k |-> "if", init |-> i, c |-> T0, a |-> a, b |-> <<>>] : i \in A.ifinits, a \in B(n - 1, ctx)} ELSE {})
  \cup (IF "ifelse" \in A.kinds
        THEN UNION {{[k |-> "if", init |-> None, c |-> T0, a |-> a, b |-> b] : a \in B(j, ctx), b \in B(n - 1 - j, ctx)} : j \in 1..(n - 2)}
        ELSE {})
  \cup (IF "switch" \in A.kinds      \* case true: a   default: d
        THEN UNION {{Switch(i, "tag", <<Case("t", a), Case("d", d)>>) : i \in SwInits(A), a \in B(j, SwCtx(ctx)), d \in B(n - 1 - j, SwCtx(ctx))} : j \in 0..(n - 1)}
        ELSE {})
  \cup (IF "switchd" \in A.kinds     \* default first, and a switch without default
        THEN UNION {{Switch(None, "tag", <<Case("d", d), Case("t", a)>>) : a \in B(j, SwCtx(ctx)), d \in B(n - 1 - j, SwCtx(ctx))} : j \in 0..(n - 1)}
             \cup {Switch(None, "tag", <<Case("f", a)>>) : a \in B(n - 1, SwCtx(ctx))}
        ELSE {})
  \cup (IF "tswitch" \in A.kinds     \* switch x := r.Any(id).(type) { case int: a  default: d }
        THEN UNION {{Switch(None, "type", <<Case("t", a), Case("d", d)>>) : a \in B(j, SwCtx(ctx)), d \in B(n - 1 - j, SwCtx(ctx))} : j \in 0..(n - 1)}
        ELSE {})
  \cup (IF "tswitchb" \in A.kinds    \* switch [init;] tv := r.AnyA(id, a).(type) { case int: r.E(id+1, tv, 0); a  default: d }
        THEN UNION {{Switch(i, "typeb", <<Case("t", a), Case("d", d)>>) : i \in A.ifinits, a \in B(j, SwCtx(ctx)), d \in B(n - 1 - j, SwCtx(ctx))} : j \in 0..(n - 1)}
        ELSE {})
  \cup (IF "notag" \in A.kinds       \* switch { case r.T(id): a  default: d }
        THEN UNION {{Switch(None, "notag", <<Case("t", a), Case("d", d)>>) : a \in B(j, SwCtx(ctx)), d \in B(n - 1 - j, SwCtx(ctx))} : j \in 0..(n - 1)}
        ELSE {})
  \cup (IF "block" \in A.kinds THEN {[k |-> "block", body |-> b] : b \in B(n - 1, ctx)} ELSE {})
  \cup (IF "range" \in A.kinds     \* A.ranges: the set of range headers (records without body)
        THEN {[h EXCEPT !.body = b] : h \in A.ranges, b \in B(n - 1, "loop")}
        ELSE {})
  \cup (IF "for" \in A.kinds
        THEN {f \in {[k |-> "for", init |-> i, c |-> cc, post |-> p, body |-> b] : i \in A.inits, cc \in A.conds, p \in A.posts, b \in B(n - 1, "loop")}
                 : Productive(f.c, f.body)}
        ELSE {})

\* table: tab[m + 1] = level m = [S |-> [ctx -> statements of size m], B |-> [ctx -> blocks of size m]]
Level(A, tab, n) ==
  LET B(m, ctx) == tab[m + 1].B[ctx]
      S == [ctx \in Ctxs |-> IF n = 0 THEN {} ELSE IF n = 1 THEN A.simple ELSE Composite(A, n, ctx, B)]
      SS(m, ctx) == IF m = n THEN S[ctx] ELSE tab[m + 1].S[ctx] IN
  [S |-> S,
   B |-> [ctx \in Ctxs |->
            IF n = 0 THEN {<<>>}
            ELSE (IF n = 1 THEN {<<j>> : j \in Jumps(A, ctx)} ELSE {})
                 \cup UNION {{<<s>> \o r : s \in SS(m, ctx), r \in B(n - m, ctx)} : m \in 1..n}]]
RECURSIVE BuildTab(_, _, _)
BuildTab(A, tab, n) == IF Len(tab) > n THEN tab ELSE BuildTab(A, Append(tab, Level(A, tab, Len(tab))), n)
\* all top-level blocks (function bodies) of size <= n
BlocksUpTo(A, n) == LET tab == BuildTab(A, <<>>, n) IN UNION {tab[m + 1].B["top"] : m \in 0..n}

\* Lazy last level: p is a function body of size exactly n, composed from a table of
\* the levels below n without materialising level n (used inside Init's quantifiers).
LazyTop(A, tab, n, p) ==
  LET B(m, ctx) == tab[m + 1].B[ctx] IN
  \/ \E m \in 1..(n - 1) : \E s \in tab[m + 1].S["top"], r \in B(n - m, "top") : p = <<s>> \o r
  \/ \E s \in Composite(A, n, "top", B) : p = <<s>>
=============================================================================
