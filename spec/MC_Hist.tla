------------------------------- MODULE MC_Hist -------------------------------
(* C09: every history over MoveNext / Current / Send v / Result up to a length
   bound, on a family of generators (0..n yields, with and without result,
   effectful, echoing received values, infinite).  TLC checks the protocol
   invariants on SeqMachine, its agreement with the direct-style reference
   (which explains Send as "resume with v"), and that SeqMachine refines the
   abstract protocol machine GenProtocol; every history is emitted with the
   expected return value of each call and replayed on the real generator. *)
EXTENDS SeqStructured, FiniteSets, Json

CONSTANTS MaxOps, Budget

Lit(n) == [k |-> "lit", v |-> n]
Th(pre, e) == [rl |-> 0, pre |-> pre, body |-> [k |-> "ret", e |-> e]]
ThR(e) == [rl |-> 9, pre |-> <<>>, body |-> [k |-> "ret", e |-> e]]      \* logs the received value
Sig(t) == [k |-> "sig", t |-> t]
Bind(v, e) == [k |-> "bind", v |-> v, f |-> Th(<<>>, e)]
BindR(v, e) == [k |-> "bindrecv", v |-> v, f |-> ThR(e)]
Eff == [k |-> "eff", id |-> 1]
Family == {
  Sig("normal"),                                                \* 0 yields
  [k |-> "retval", v |-> Lit(4)],                               \* 0 yields, result 4
  Bind(Lit(1), Sig("normal")),                                  \* 1 yield
  Bind(Lit(1), Bind(Lit(2), [k |-> "retval", v |-> Lit(4)])),   \* 2 yields + result
  [k |-> "delay", f |-> Th(<<Eff>>, Bind(Lit(1), [k |-> "delay", f |-> Th(<<Eff>>, Bind(Lit(2), Sig("normal")))]))],
  BindR(Lit(1), BindR(Lit(2), BindR(Lit(3), Sig("normal")))),   \* echo: logs what it received
  BindR(Lit(1), [k |-> "delay", f |-> Th(<<[k |-> "inc"]>>, BindR([k |-> "x"], [k |-> "retval", v |-> [k |-> "x"]]))]),
  BindR(Lit(1), Bind([k |-> "x"], [k |-> "retval", v |-> Lit(4)])),   \* a receiving yield followed by a plain one (mkNextRecv, then mkNext)
  Bind(Lit(1), BindR(Lit(2), Bind(Lit(3), Sig("normal")))),           \* plain, receiving, plain
  [k |-> "for", c |-> None, p |-> [id |-> 3], body |-> BindR([k |-> "x"], Sig("normal"))],  \* infinite, x++
  [k |-> "comb", a |-> Bind(Lit(1), Sig("break")), b |-> Bind(Lit(2), Sig("normal"))]       \* break escapes to the top
}
Ops == {[op |-> "next"], [op |-> "cur"], [op |-> "result"], [op |-> "send", arg |-> 7], [op |-> "send", arg |-> 8]}

VARIABLES term, g, w, obs, adv, resume
vars == <<term, g, w, obs, adv, resume>>
Init == /\ term \in Family /\ w = W0(<<>>, Budget) /\ g = NewGen(term, w) /\ obs = <<>>
        /\ adv = 0 /\ resume = <<>>

Rec(o, ok, val, g2, w2) == [op |-> o.op, arg |-> IF o.op = "send" THEN o.arg ELSE 0, ok |-> ok, val |-> val,
                            cur |-> g2.current, res |-> w2.result, panic |-> w2.panic, effs |-> NewLog(w, w2)]
Do(o) ==
  /\ Len(obs) < MaxOps /\ ~Panicked(w)
  /\ CASE o.op = "next" -> LET r == DoMoveNext(g, w) IN
            /\ g' = r.g /\ w' = r.w
            /\ obs' = Append(obs, Rec(o, r.ok, 0, r.g, r.w))
            /\ adv' = 1 /\ resume' = IF adv = 0 THEN resume ELSE Append(resume, 0)
       [] o.op = "send" -> LET r == DoSend(g, o.arg, w) IN
            /\ g' = r.g /\ w' = r.w
            /\ obs' = Append(obs, Rec(o, r.ok, r.val, r.g, r.w))
            /\ adv' = 1 /\ resume' = Append(resume, o.arg)
       [] o.op = "cur" -> /\ UNCHANGED <<g, w, adv, resume>>
            /\ obs' = Append(obs, Rec(o, TRUE, g.current, g, w))
       [] o.op = "result" -> /\ UNCHANGED <<g, w, adv, resume>>
            /\ obs' = Append(obs, Rec(o, TRUE, w.result, g, w))
  /\ UNCHANGED term
Next == \E o \in Ops : Do(o)
Spec == Init /\ [][Next]_vars

\* ---------------------------------------------------------------- properties
Exhausted == IsNone(g.next)
Inv == /\ (Exhausted => g.current = Zero)
       /\ (~g.started => g.current = Zero /\ w.log = <<>>)
       /\ IsNone(w.step)
\* once an advance reported false, every later advance reports false and runs no generator code
Permanent == [][Exhausted => (IsNone(g'.next) /\ w'.log = w.log /\ w'.result = w.result /\ g'.current = Zero)]_vars
\* the documented meaning of Send: resume the pending yield with v.  The
\* structured reference run with the same resumption values produces the same log.
\* (an unstarted Send whose first advance already finishes consumes no value: harmless,
\*  the reference ignores unused resumption values)
YieldsOf(log) == SelectSeq(log, LAMBDA e : e[1] = "y")
NonYields(log) == SelectSeq(log, LAMBDA e : e[1] # "y")
RefAgree ==
  LET ref == RefRun(term, <<>>, Budget, adv, resume) IN
  /\ w.log = NonYields(ref.log)
  /\ (~Panicked(w) /\ Exhausted => ref.done /\ w.result = ref.result)
  /\ (~Panicked(w) /\ ~Exhausted /\ adv = 1 => ~ref.done /\ g.current = YieldsOf(ref.log)[Len(YieldsOf(ref.log))][2])

\* refinement of the abstract protocol machine
GP == INSTANCE GenProtocol WITH started <- g.started, live <- ~IsNone(g.next), current <- g.current,
                                result <- w.result,
                                lastOk <- IF obs = <<>> THEN TRUE
                                          ELSE LET adv_ops == SelectSeq(obs, LAMBDA e : e.op \in {"next", "send"}) IN
                                               IF adv_ops = <<>> THEN TRUE ELSE adv_ops[Len(adv_ops)].ok
Abstract == GP!Spec
AbstractInv == GP!IndInv

Done == Len(obs) = MaxOps \/ Panicked(w)
Emit == Done => PrintT(ToJson([term |-> term, tape |-> <<>>, ops |-> obs]))
=============================================================================
