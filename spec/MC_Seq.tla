------------------------------- MODULE MC_Seq -------------------------------
(* C08 (and the runtime half of C02/C18): on every term of the bounded family,
   under every input tape and after every number of consumer advances, the CPS
   machine that transcribes seq.go agrees with the direct-style reference.
   The same run emits every case (term, tape, expected observation per call)
   as one JSON line; the harness replays them on the real runtime. *)
EXTENDS Terms, Json

CONSTANTS MaxSize, TapeLen, MaxCalls, Budget, WithRecv,
          Fam      \* "size": every term up to MaxSize; "nest" / "nestfull": the nested-loop family T_nest of Terms.tla

AllTerms == CASE Fam = "nest" -> NestedLoopTerms(FALSE) [] Fam = "nestfull" -> NestedLoopTerms(TRUE) [] OTHER -> TermsUpTo(MaxSize, WithRecv)

VARIABLES term, tape0, g, w, calls, obs
vars == <<term, tape0, g, w, calls, obs>>

Init == /\ term \in AllTerms
        \* a tape shorter than TapeLen behaves like the same tape padded with FALSE: T_nest takes full-length tapes only
        /\ tape0 \in (IF Fam = "size" THEN Tapes(TapeLen) ELSE [1..TapeLen -> BOOLEAN])
        /\ w = W0(tape0, Budget)
        /\ g = NewGen(term, w)
        /\ calls = 0
        /\ obs = <<>>

\* one consumer call  it.MoveNext(); it.Current()
MoveNext ==
  /\ calls < MaxCalls /\ ~Panicked(w)
  /\ LET r == DoMoveNext(g, w) IN
     /\ g' = r.g
     /\ w' = IF r.ok THEN [r.w EXCEPT !.log = Append(@, <<"y", r.g.current>>)] ELSE r.w
     /\ obs' = Append(obs, [op |-> "next", ok |-> r.ok, cur |-> r.g.current, panic |-> r.w.panic,
                            effs |-> NewLog(w, r.w), res |-> r.w.result, maxd |-> r.w.maxd])
  /\ calls' = calls + 1
  /\ UNCHANGED <<term, tape0>>

Next == MoveNext
Spec == Init /\ [][Next]_vars

\* ------------------------------------------------ properties
\* C08: machine = structured reference at every consumer step
RefAgree ==
  LET ref == RefRun(term, tape0, Budget, calls, Zeros(IF calls = 0 THEN 0 ELSE calls - 1)) IN
  /\ w.log = ref.log
  /\ w.panic = ref.panic
  /\ (IsNone(g.next) /\ ~Panicked(w) => ref.done /\ w.result = ref.result)
  /\ (~IsNone(g.next) /\ calls > 0 /\ ~Panicked(w) => ~ref.done)

\* C09 fragment: current is zero when fresh or exhausted, the pending step never leaks
Protocol == /\ (IsNone(g.next) => g.current = Zero)
            /\ (~g.started => g.current = Zero)
            /\ IsNone(w.step)
NoSpin == w.panic # "spin"

Done == calls = MaxCalls \/ Panicked(w)
Emit == Done => PrintT(ToJson([term |-> term, tape |-> tape0, obs |-> obs]))
=============================================================================
