------------------------------ MODULE MC_Cons ------------------------------
(* C06: consumer-side code.  Consumer functions of a processed file that pull
   and range over two live iterators (a two-yield generator with an effect in
   between, and the recursive tree walk): pulls before / inside / after loops,
   `for v := range it` and `for v = range it` with guarded break / continue /
   return, nesting, a body that re-declares the loop variable, and a final
   observation of the function-level v.  The consumer's recorder is shared with
   the generators, so the number of advances the generator side sees (over-
   pulling after break/return) is part of the observation.

   Consumer statements:
     pull(it)   if itN.MoveNext() { r.E(id, itN.Current(), 0) } else { r.E(id, -1, 0) }
     effv       r.E(id, v, 0)
     shadow     sh = 1:  v := v + 100; _ = v          (only in the body of a `:=` range loop)
                sh = 2:  g := func() int { return v }; v, w := rt.Two(v+100, 0); v += g(); _ = w
                         (a multi-value re-declaration: g captured the loop variable, not the new v)
     ifbrk / ifcnt / ifret                    if r.T(id) { break | continue | return }
     range(it, tok, body)                     for v := / = range itN { body },  for range itN { body },  for _ = range itN { body } *)
EXTENDS SrcSyntax, Json
CONSTANTS MaxSize, TapeLen, Budget

VarA == [k |-> "var", n |-> "a"]
Y(v) == [k |-> "yield", v |-> v]
YF(g, arg) == [k |-> "yfrom", g |-> g, arg |-> arg]
D2 == <<Y(VarA), [k |-> "eff", id |-> 91], Y([k |-> "lit", v |-> 5])>>
D3 == <<[k |-> "if", init |-> None, c |-> [k |-> "t", id |-> 92], a |-> <<Y([k |-> "lit", v |-> 6])>>, b |-> <<>>]>>
D4 == <<[k |-> "if", init |-> None, c |-> [k |-> "t", id |-> 93],
         a |-> <<YF(4, [k |-> "add", n |-> "a", d |-> 1]), Y(VarA), YF(4, [k |-> "add", n |-> "a", d |-> 1])>>, b |-> <<>>]>>

\* loop headers: for v := range it / for v = range it / for range it / for _ = range it
Toks == {"def", "asg", "none", "blank"}
Pulls == {[k |-> "pull", it |-> i, id |-> 0] : i \in 1..2}
Guards == {[k |-> g, id |-> 0] : g \in {"ifbrk", "ifcnt", "ifret"}}
\* table of consumer blocks by size: level n from the levels below (inR: inside a range body)
MLevel(tab, n) ==
  LET B(m, inR) == tab[m + 1][inR]
      S(inR) == IF n = 1 THEN Pulls \cup {[k |-> "effv", id |-> 0]} \cup (IF inR = "r" THEN Guards ELSE {})
                ELSE {[k |-> "range", it |-> i, tok |-> t, sh |-> sh, body |-> b] :
                        i \in 1..2, t \in Toks, sh \in 0..2, b \in B(n - 1, "r")}
      SS(m, inR) == IF m = n THEN S(inR) ELSE
                    IF m = 1 THEN Pulls \cup {[k |-> "effv", id |-> 0]} \cup (IF inR = "r" THEN Guards ELSE {})
                    ELSE {[k |-> "range", it |-> i, tok |-> t, sh |-> sh, body |-> b] :
                            i \in 1..2, t \in Toks, sh \in 0..2, b \in B(m - 1, "r")} IN
  [inR \in {"r", "f"} |-> IF n = 0 THEN {<<>>}
                          ELSE UNION {{<<s>> \o r : s \in SS(m, inR), r \in B(n - m, inR)} : m \in 1..n}]
RECURSIVE BuildM(_, _)
BuildM(tab, n) == IF Len(tab) > n THEN tab ELSE BuildM(Append(tab, MLevel(tab, Len(tab))), n)
\* `sh` (re-declare v at the top of the body) is only meaningful for `:=` loops
RECURSIVE ShOK(_)
ShOK(b) == \A j \in 1..Len(b) : b[j].k = "range" => ((b[j].sh > 0 => b[j].tok = "def") /\ ShOK(b[j].body))
HasRange(b) == \E j \in 1..Len(b) : b[j].k = "range"
MTab == BuildM(<<>>, MaxSize)
Mains == {m \in UNION {MTab[n + 1]["f"] : n \in 1..MaxSize} : HasRange(m) /\ ShOK(m)}

\* labelling of consumer statements by position
RECURSIVE LabMB(_, _)
LabMB(ss, n) ==
  IF ss = <<>> THEN [v |-> <<>>, n |-> n]
  ELSE LET s == Head(ss)
           h == IF s.k = "range" THEN LET b == LabMB(s.body, n) IN [v |-> [s EXCEPT !.body = b.v], n |-> b.n]
                ELSE [v |-> [s EXCEPT !.id = n], n |-> n + 1]
           t == LabMB(Tail(ss), h.n) IN
       [v |-> <<h.v>> \o t.v, n |-> t.n]
LabelM(m) == LabMB(m, 1).v

\* big-step execution of consumer code.
\* e: [fv |-> function-level v, lv |-> innermost loop-local v, loc |-> a loop-local v is in scope]
MR(sig, w, e) == [sig |-> sig, w |-> w, e |-> e]
InScope(e) == IF e.loc THEN e.lv ELSE e.fv
AssignV(e, x) == IF e.loc THEN [e EXCEPT !.lv = x] ELSE [e EXCEPT !.fv = x]
RECURSIVE ExecM(_, _, _), RangeLoop(_, _, _)
ExecM(ss, w, e) ==
  IF Panicked(w) THEN MR("panic", w, e)
  ELSE IF ss = <<>> THEN MR("fall", w, e)
  ELSE LET s == Head(ss) rest == Tail(ss) IN
    CASE s.k = "effv" -> ExecM(rest, Log(w, <<"e", s.id, InScope(e), 0>>), e)
      [] s.k = "pull" -> LET r == Adv(s.it, w) IN
                         IF Panicked(r.w) THEN MR("panic", r.w, e)
                         ELSE ExecM(rest, Log(r.w, <<"e", s.id, IF r.ok THEN r.w.cos[s.it].cur ELSE 0 - 1, 0>>), e)
      [] s.k = "ifbrk" -> LET r == ReadTape(w, s.id) IN IF Panicked(r.w) THEN MR("panic", r.w, e) ELSE IF r.b THEN MR("brk", r.w, e) ELSE ExecM(rest, r.w, e)
      [] s.k = "ifcnt" -> LET r == ReadTape(w, s.id) IN IF Panicked(r.w) THEN MR("panic", r.w, e) ELSE IF r.b THEN MR("cnt", r.w, e) ELSE ExecM(rest, r.w, e)
      [] s.k = "ifret" -> LET r == ReadTape(w, s.id) IN IF Panicked(r.w) THEN MR("panic", r.w, e) ELSE IF r.b THEN MR("ret", r.w, e) ELSE ExecM(rest, r.w, e)
      [] s.k = "range" -> LET q == RangeLoop(s, w, e) IN
                          IF q.sig \in {"ret", "panic"} THEN q ELSE ExecM(rest, q.w, q.e)
\* for v := / = range it { body }: exactly one MoveNext per iteration, none after break / return
RangeLoop(s, w0, e) ==
  LET w == Tick(w0) IN
  IF Panicked(w) THEN MR("panic", w, e)
  ELSE LET r == Adv(s.it, w) IN
  IF Panicked(r.w) THEN MR("panic", r.w, e)
  ELSE IF ~r.ok THEN MR("fall", r.w, e)
  ELSE LET cur == r.w.cos[s.it].cur IN
       IF s.tok \in {"asg", "none", "blank"} THEN
         \* without a loop variable the element is dropped: the body sees the variables in scope unchanged
         LET b == ExecM(s.body, r.w, IF s.tok = "asg" THEN AssignV(e, cur) ELSE e) IN
         CASE b.sig \in {"fall", "cnt"} -> RangeLoop(s, b.w, b.e)
           [] b.sig = "brk" -> MR("fall", b.w, b.e)
           [] OTHER -> b
       ELSE \* `:=`: a fresh loop variable; with `sh` the body re-declares it (v := v + 100) in its own scope
         LET b == ExecM(s.body, r.w, [fv |-> e.fv, lv |-> CASE s.sh = 1 -> cur + 100
                                                                       \* g reads the LOOP variable (cur), rt.Two adds 10: the new v is (cur + 110) + g()
                                                                       [] s.sh = 2 -> 2 * cur + 110
                                                                       [] OTHER -> cur, loc |-> TRUE])
             out == [e EXCEPT !.fv = b.e.fv] IN
         CASE b.sig \in {"fall", "cnt"} -> RangeLoop(s, b.w, out)
           [] b.sig = "brk" -> MR("fall", b.w, out)
           [] OTHER -> MR(b.sig, b.w, out)

VARIABLES main, tape0, done, out
vars == <<main, tape0, done, out>>
Init == (\E m \in Mains : main = LabelM(m)) /\ tape0 \in Tapes(TapeLen) /\ done = FALSE /\ out = <<>>
RunMain == /\ ~done /\ done' = TRUE
       /\ LET w0 == Spawn(Spawn(MW0(<<<<>>, D2, D3, D4>>, tape0, Budget, {}), 2, 3, 2).w, 4, 1, 2).w
              r  == ExecM(main \o <<[k |-> "effv", id |-> 99]>>, w0, [fv |-> 0, lv |-> 0, loc |-> FALSE]) IN
          out' = [log |-> r.w.log, panic |-> r.w.panic]
       /\ UNCHANGED <<main, tape0>>
Next == RunMain
Spec == Init /\ [][Next]_vars
NoSpin == done => out.panic # "spin"
Emit == done => PrintT(ToJson([main |-> main, tape |-> tape0, log |-> out.log, panic |-> out.panic]))
=============================================================================
