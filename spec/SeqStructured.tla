--------------------------- MODULE SeqStructured ---------------------------
(* Direct-style reference semantics for combinator terms: structured loops with
   break / continue / return signals, no continuations, no pending step.
   This is the "reference interpreter for structured loops" of property C08 and
   the documented meaning of seq/README.md:
     - Combine(a, b): run a; run b only if a completed normally, otherwise
       propagate a's signal (break/continue/return skip the rest);
     - For(cond, post, body): no post before the first iteration; then
       cond -> body -> (post on normal completion and on continue) -> cond ...;
       break leaves the loop normally, return propagates;
     - Bind(v, f): yield v (v was evaluated when the term was constructed),
       then, when resumed, run f and continue with the term it returns.
   A yield is the log marker <<"y", v>>.  `ins` is the sequence of values the
   consumer will send at the next resumptions (0 for a plain MoveNext); the
   evaluation stops right after the yield at which `ins` is exhausted -- that
   is where the real coroutine stays suspended. *)
EXTENDS SeqMachine

RECURSIVE EvalS(_, _, _), LoopS(_, _, _, _)

R(sig, v, w, ins) == [sig |-> sig, v |-> v, w |-> w, ins |-> ins]

EvalS(sv, w, ins) ==
  IF Panicked(w) THEN R("panic", Zero, w, ins)
  ELSE
  CASE sv.s \in {"bind", "bindrecv"} ->
         LET w1 == [w EXCEPT !.log = Append(@, <<"y", sv.v>>)] IN
         IF ins = <<>> THEN R("stop", Zero, w1, ins)
         ELSE LET r == CallThunk(sv.f, IF sv.s = "bindrecv" THEN Head(ins) ELSE Zero, w1) IN
              IF Panicked(r.w) THEN R("panic", Zero, r.w, Tail(ins))
              ELSE EvalS(r.sv, r.w, Tail(ins))
    [] sv.s = "delay" -> LET r == CallThunk(sv.f, Zero, w) IN
                         IF Panicked(r.w) THEN R("panic", Zero, r.w, ins) ELSE EvalS(r.sv, r.w, ins)
    [] sv.s = "comb"  -> LET r == EvalS(sv.a, w, ins) IN
                         IF r.sig = "normal" THEN EvalS(sv.b, r.w, r.ins) ELSE r
    [] sv.s = "for"   -> LoopS(sv, TRUE, w, ins)
    \* ForPost's iteration: the body, then (unless it left by break / return) the yielding post statement
    [] sv.s = "fpbody" -> LET r == EvalS(sv.body, w, ins) IN
                          IF r.sig \in {"normal", "continue"} THEN EvalS(sv.post, r.w, r.ins) ELSE r
    \* Breakable: a break leaves the body and execution goes on after it; everything else passes
    [] sv.s = "brk"   -> LET r == EvalS(sv.body, w, ins) IN
                         IF r.sig = "break" THEN R("normal", Zero, r.w, r.ins) ELSE r
    [] sv.s = "sig"   -> R(sv.t, Zero, w, ins)
    [] sv.s = "retval"-> R("return", sv.v, w, ins)

LoopS(l, first, w00, ins) ==
  LET w == Tick(w00)
      w1 == IF Panicked(w) \/ IsNone(l.p) \/ first THEN w
            ELSE LET a == Log(w, <<"p", l.p.id, w.x>>) IN IF Panicked(a) THEN a ELSE [a EXCEPT !.x = @ + 1] IN
  IF Panicked(w1) THEN R("panic", Zero, w1, ins)
  ELSE LET c == IF IsNone(l.c) THEN [b |-> TRUE, w |-> w1] ELSE ReadTape(w1, l.c.id) IN
       IF Panicked(c.w) THEN R("panic", Zero, c.w, ins)
       ELSE IF ~c.b THEN R("normal", Zero, c.w, ins)
       ELSE LET r == EvalS(l.body, c.w, ins) IN
            CASE r.sig \in {"normal", "continue"} -> LoopS(l, FALSE, r.w, r.ins)
              [] r.sig = "break"  -> R("normal", Zero, r.w, r.ins)
              [] OTHER -> r          \* return, stop, panic propagate

\* Reference run of Start(te): the consumer performs the first advance and then
\* resumes with the values of `resume` (K MoveNext calls = first advance + K-1 zeros).
\* advances = 0 means the iterator was created and never advanced.
RefRun(te, tape, budget, advances, resume) ==
  LET w0 == W0(tape, budget)
      sv == Construct(te, w0) IN
  IF advances = 0 THEN [log |-> <<>>, result |-> Zero, done |-> FALSE, panic |-> ""]
  ELSE LET r == EvalS(sv, w0, resume) IN
       [log |-> r.w.log,
        result |-> IF r.sig = "return" THEN r.v ELSE Zero,
        done |-> r.sig \notin {"stop", "panic"},
        panic |-> r.w.panic]

Zeros(n) == [i \in 1..n |-> 0]
=============================================================================
