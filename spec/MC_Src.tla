------------------------------- MODULE MC_Src -------------------------------
(* Case generation for the generator-source families (C01, C02, C03, C05, C11,
   C18; also the compiler-facing half of C07/C13/C14): TLC enumerates every
   program of the family up to the size bound x every input tape, runs the
   reference coroutine semantics CoSource for MaxCalls consumer calls, and emits
   the expected observation of every call -- once under the ideal semantics (the
   property) and once with the open as-built deviation flags (known findings). *)
EXTENDS SrcSyntax, Json

CONSTANTS Family,     \* "ctl" | "ctlx" | "range" | "rangex" | "eff" | "scope" | "yf" | "panic"
          MaxSize, TapeLen, MaxCalls, Budget,
          OpenFlags,  \* set of as-built flags that are open known findings
          Lazy,       \* compose the last size level lazily inside Init
          TapeRep,    \* 0: every tape up to TapeLen; r > 0: (prefix, pattern) tapes: a prefix followed by a non-empty
                      \*    pattern up to TapeLen repeated r times (C17: long stretches after the first yields)
          PrefixLen   \* maximal length of the prefix (only with TapeRep > 0)

Lit0 == [k |-> "lit", v |-> 0]
VarA == [k |-> "var", n |-> "a"]
Y(v) == [k |-> "yield", v |-> v]
Eff == [k |-> "eff", id |-> 0]
IncA == [k |-> "inc", n |-> "a"]
DefA == [k |-> "def", n |-> "a", d |-> 10]
PAssign == [k |-> "passign", id |-> 0]
YF(g, arg) == [k |-> "yfrom", g |-> g, arg |-> arg]
YFs == {YF(2, VarA), YF(3, [k |-> "lit", v |-> 1]), YF(4, VarA)}
AllJumps == {"return", "break", "continue"}

ACtl == [simple |-> {Eff, IncA, Y(Lit0), Y(VarA)},
         inits |-> {None, Y(Lit0)}, posts |-> {None, PAssign, Y(Lit0)}, conds |-> {None, T0},
         ifinits |-> {None}, kinds |-> {"if", "ifelse", "switch", "block", "for"}, jumps |-> AllJumps \cup {"retx"}, ranges |-> {}]
Def2 == [k |-> "def2"]
AScope == [simple |-> {Eff, DefA, Def2, IncA, [k |-> "callf"], Y(VarA)},
           inits |-> {None, DefA, Def2}, posts |-> {None, IncA, Y(VarA)}, conds |-> {T0},
           ifinits |-> {None, DefA, Def2}, kinds |-> {"if", "ifelse", "switch", "tswitchb", "block", "for"}, jumps |-> {"continue"}, ranges |-> {}]
\* it := D2(r, 3, b) at the top of the function: pulled by hand and / or delegated to
PullIt == [k |-> "pullit", id |-> 0]
YFromIt == [k |-> "yfromit"]
AYf == [simple |-> {Eff, Y(VarA), PullIt, YFromIt} \cup YFs,
        inits |-> {None}, posts |-> {None} \cup YFs, conds |-> {T0},
        ifinits |-> {None}, kinds |-> {"if", "switch", "for"}, jumps |-> {"break", "continue"}, ranges |-> {},
        swinits |-> {None, YF(2, VarA)}]      \* switch YieldFrom(D2(r, a, b)); r.T(id) { .. }
\* delegation family without the recursive delegate: bounded delegation depth (C17 loop cases)
YFsL == {YF(g, arg) : g \in 2..3, arg \in {[k |-> "lit", v |-> 1], VarA}}
\* independence of iterators held by ONE generator (C14): the local iterator `it`, delegates created by
\* YieldFrom, and a second iterator it2 created in a later step; hand pulls of `it` also after its exhaustion
AIndep == [simple |-> {PullIt, YFromIt, [k |-> "mk2"], Y(VarA), YF(2, [k |-> "lit", v |-> 1])},
           inits |-> {None}, posts |-> {None}, conds |-> {T0}, ifinits |-> {None},
           kinds |-> {"if"}, jumps |-> {}, ranges |-> {}]
\* a pull loop `for it.MoveNext() { .. }` over an iterator variable that holds NO iterator (C18: the nil dereference
\* belongs to the step that evaluates the condition; a loop value built earlier must not evaluate `it.MoveNext`)
ItN == [k |-> "itn"]
ANilIt == [simple |-> {Eff, Y(Lit0), Y(VarA)},
           inits |-> {None}, posts |-> {None, IncA}, conds |-> {T0, ItN}, ifinits |-> {None},
           kinds |-> {"if", "ifelse", "switch", "block", "for"}, jumps |-> {"break", "return"}, ranges |-> {}]
\* loop variables captured by closures (C03): for a := a + 10; r.T(id); a++ { caps = append(caps, func() int { return a }) .. }
\* -- every iteration has its own `a` (Go >= 1.22), observed through the closures after / inside the loop
CapA == [k |-> "capa"]
ObsCaps == [k |-> "obscaps", id |-> 0]
ALoopVar == [simple |-> {CapA, ObsCaps, Y(VarA), IncA},
             inits |-> {DefA}, posts |-> {None, IncA}, conds |-> {T0}, ifinits |-> {None},
             kinds |-> {"if", "for"}, jumps |-> {"continue", "break"}, ranges |-> {}]
AYfL == [AYf EXCEPT !.simple = {Eff, IncA, Y(VarA)} \cup YFsL, !.posts = {None} \cup YFsL]
\* transformer generators (C06): a generator that ranges over the local iterator `it` (instance 2) and yields
\* from inside the loop, also inside a switch clause, with break / continue / return and pulls by hand
AXf == [simple |-> {Eff, Y([k |-> "var", n |-> "k"]), PullIt},
        inits |-> {None}, posts |-> {None}, conds |-> {T0}, ifinits |-> {None},
        kinds |-> {"if", "switch", "range"}, jumps |-> {"break", "continue", "return"},
        ranges |-> {[k |-> "range", id |-> 0, kind |-> "iter", xf |-> "var", kf |-> kf, vf |-> "none", wrap |-> "none", body |-> <<>>] : kf \in {"def", "none"}}]
\* generators of generators (C14, C11): the yielded values are iterators (fresh instances of the delegates 2, 3),
\* consumed by the flattening round-robin consumer GGStep of CoSource
YG(g, arg) == [k |-> "ygen", g |-> g, arg |-> arg]
AGG == [simple |-> {Eff, IncA, YG(2, VarA), YG(3, [k |-> "lit", v |-> 1])},
        inits |-> {None}, posts |-> {None, YG(3, [k |-> "lit", v |-> 1])}, conds |-> {T0}, ifinits |-> {None},
        kinds |-> {"if", "for"}, jumps |-> {"break"}, ranges |-> {}]
APanic == [ACtl EXCEPT !.simple = @ \cup {[k |-> "panic"], Y([k |-> "b1", e |-> [k |-> "lit", v |-> 7]])},
                        !.posts = @ \cup {Y([k |-> "b1", e |-> [k |-> "lit", v |-> 7]])}]     \* a panicking (yielding) post statement
\* the control-flow family with every switch form: default first / no default, type switch, tag-less switch
\* effects everywhere, effectful yield expressions (C02: the interleaving is the observation)
ObsA == [k |-> "obs", id |-> 0, n |-> "a"]
AEff == [ACtl EXCEPT !.simple = {Eff, IncA, Y(ObsA), Y(VarA)}, !.posts = {None, PAssign, Y(ObsA)}, !.inits = {None, Y(ObsA)}]
\* expression shapes of yielded values (evaluation time of the Bind argument: C02, C07, C18):
\* literal / variable / effectful two-argument call, each plain, negated, parenthesised and as the
\* argument of a one-argument call; in a small control alphabet
Base == {Lit0, VarA, ObsA}
Exprs == Base \cup {[k |-> wk, e |-> e] : wk \in {"neg", "paren", "w1"}, e \in Base}
\* ... and a variable of another package (qualified identifier rt.Level) that a plain post statement changes
QV == [k |-> "qv"]
IncQ == [k |-> "incq"]
AExpr == [simple |-> {Eff, IncA, IncQ, Y(QV)} \cup {Y(e) : e \in Exprs},
          inits |-> {None}, posts |-> {None, IncQ, Y([k |-> "w1", e |-> Lit0]), Y([k |-> "neg", e |-> ObsA])}, conds |-> {T0},
          ifinits |-> {None}, kinds |-> {"if", "block", "for"}, jumps |-> {"return", "retx", "break"}, ranges |-> {}]
\* jumps in depth: only what interacts with break / continue (loops with and without a yielding
\* post statement, switch, if), so that nesting depth 4-5 is exhaustively reachable
AJump == [simple |-> {Y(Lit0)}, inits |-> {None}, posts |-> {None, Y(Lit0)}, conds |-> {T0},
          ifinits |-> {None}, kinds |-> {"if", "switch", "for"}, jumps |-> {"break", "continue"}, ranges |-> {},
          swinits |-> {None, Y(Lit0)}]        \* switch Yield(v); r.T(id) { .. }
\* closures of eta shape (C07 / C13): function variable as loop condition that the body reassigns, method
\* value whose receiver variable is reassigned, wrappers around a package function, a generic instance,
\* a builtin and a conversion
CV == [k |-> "cv", id |-> 0]
\* (the callee kinds that cannot be reassigned -- package function, generic instance, builtin, conversion --
\*  only need to occur: they live in the smaller families optx / byx)
AOpt == [simple |-> {Eff, [k |-> "setcv"], [k |-> "sets"], [k |-> "setp"], Y(VarA), Y([k |-> "gets"]), Y([k |-> "pv", n |-> "a"])},
         inits |-> {None}, posts |-> {None, PAssign, Y([k |-> "gets"])}, conds |-> {T0, CV},
         ifinits |-> {None}, kinds |-> {"if", "for"}, jumps |-> {"break", "continue"}, ranges |-> {}]
\* bystanders (C13): plain functions of a processed file -- the same closures, observed by effects instead of yields
EffX(v) == [k |-> "effx", id |-> 0, v |-> v]
ABy == [AOpt EXCEPT !.simple = {Eff, [k |-> "setcv"], [k |-> "sets"], [k |-> "setp"], EffX([k |-> "gets"]), EffX([k |-> "pv", n |-> "a"])},
                    !.posts = {None, PAssign}]
AOptX == [AOpt EXCEPT !.simple = {IncA, [k |-> "unsup", u |-> "clo-loopvar", id |-> 0], Y([k |-> "pk", n |-> "a"]),
                                  Y([k |-> "swp", n |-> "a"]), Y([k |-> "dup", n |-> "a"]), Y([k |-> "idi", n |-> "a"]), Y([k |-> "unn", n |-> "a"]), Y([k |-> "perr", n |-> "a"]), Y([k |-> "vari", n |-> "a"]), Y([k |-> "idg", n |-> "a"]), Y([k |-> "ln"]), Y([k |-> "cnv", n |-> "a"]), Y([k |-> "gets"])}]
AByX == [ABy EXCEPT !.simple = {IncA, EffX([k |-> "pk", n |-> "a"]),
                                EffX([k |-> "swp", n |-> "a"]), EffX([k |-> "dup", n |-> "a"]), EffX([k |-> "idi", n |-> "a"]), EffX([k |-> "unn", n |-> "a"]), EffX([k |-> "perr", n |-> "a"]), EffX([k |-> "vari", n |-> "a"]), EffX([k |-> "idg", n |-> "a"]), EffX([k |-> "ln"]), EffX([k |-> "cnv", n |-> "a"]), EffX([k |-> "gets"])}]
\* constructs outside the supported subset (C12): a small control alphabet plus exactly one such construct
UKinds == {"lbreak", "lcont", "goto", "select", "selbrk", "defer", "fallyield", "ifinit", "rparr", "rfunc", "rtparam", "lrange", "parenyield", "rparrdefer", "rparrbrk", "rparrcnt", "elifinit", "fordefer",
           "clo-lbreak", "clo-goto", "clo-select", "clo-defer", "clo-rfunc", "clo-rparr", "clo-fall", "clo-selbrk", "clo-lrange"}
AUnsup == [simple |-> {Eff, Y(VarA)} \cup {[k |-> "unsup", u |-> u, id |-> 0] : u \in UKinds},
           inits |-> {None}, posts |-> {None, Y(VarA)}, conds |-> {T0}, ifinits |-> {None},
           kinds |-> {"if", "for", "switch"}, jumps |-> {"break", "continue", "return"}, ranges |-> {}]
RECURSIVE CountU(_), CountUS(_)
CountUS(s) == (IF s.k = "unsup" THEN 1 ELSE 0)
              + CASE s.k = "if" -> CountU(s.a) + CountU(s.b)
                  [] s.k = "switch" -> CountU(s.cases[1].body) + (IF Len(s.cases) > 1 THEN CountU(s.cases[2].body) ELSE 0)
                  [] s.k \in {"block", "for"} -> CountU(s.body)
                  [] OTHER -> 0
CountU(b) == IF b = <<>> THEN 0 ELSE CountUS(Head(b)) + CountU(Tail(b))
\* yields of freshly allocated objects (generators of element type *box): &box{v: 1} and &box{v: a} must be
\* evaluated at every yield -- a literal-looking composite is not a literal (C07: Delay elision, C02)
Fresh(e) == [k |-> "fresh", e |-> e]
ABox == [simple |-> {Eff, IncA, Y(Fresh([k |-> "lit", v |-> 1])), Y(Fresh(VarA))},
         inits |-> {None}, posts |-> {None, Y(Fresh([k |-> "lit", v |-> 1]))}, conds |-> {T0},
         ifinits |-> {None}, kinds |-> {"if", "for", "block"}, jumps |-> {"break", "continue"}, ranges |-> {}]
\* nested function literals (C01): an immediately invoked closure and a generator literal nested in the
\* generator that captures its variables, in the control alphabet
ALit == [simple |-> {Eff, IncA, Y(VarA), [k |-> "iife", id |-> 0], [k |-> "nestgen", id |-> 0]},
         inits |-> {None}, posts |-> {None, PAssign, Y(VarA)}, conds |-> {T0, None}, ifinits |-> {None},
         kinds |-> {"if", "switch", "for"}, jumps |-> {"break", "continue", "return"}, ranges |-> {}]
ACtlX == [ACtl EXCEPT !.kinds = @ \cup {"switchd", "tswitch", "notag"}]
\* range loops inside generators (C04): every collection kind x variable forms x body shapes
RangeHdr(kind, xf, kf, vf) == [k |-> "range", id |-> 0, kind |-> kind, xf |-> xf, kf |-> kf, vf |-> vf, wrap |-> "none", body |-> <<>>]
KVForms == {<<"def", "def">>, <<"def", "none">>, <<"blank", "def">>, <<"none", "none">>, <<"asg", "asg">>, <<"asg", "none">>, <<"blank", "asg">>}
KForms == {<<"def", "none">>, <<"none", "none">>, <<"asg", "none">>}
Ranges == {RangeHdr(kd, "var", f[1], f[2]) : kd \in {"slice", "array", "string"}, f \in KVForms}
     \cup {RangeHdr(kd, "var", f[1], f[2]) : kd \in {"int", "chan"}, f \in KForms}
     \cup {RangeHdr(kd, "var", "asg", "idx") : kd \in {"slice", "array"}}
     \cup {RangeHdr(kd, "call", "def", "def") : kd \in {"slice", "array", "string"}}
     \cup {RangeHdr(kd, "call", "def", "none") : kd \in {"int", "chan"}}
     \* the operand has a NAMED type (type strT string, ...): same meaning as the underlying type
     \cup {RangeHdr(kd, "named", "def", "def") : kd \in {"slice", "array", "string"}}
     \cup {RangeHdr(kd, "named", "def", "none") : kd \in {"int", "chan"}}
     \* for kk64 = range 3  with  var kk64 int64  (kk = int(kk64) at the top of the body)
     \cup {RangeHdr("intc", "var", "asg", "none")}
Mut(op, j) == [k |-> "mut", op |-> op, j |-> j]
VarK == [k |-> "var", n |-> "k"]
VarV == [k |-> "var", n |-> "v"]
\* range loops with an empty body count as simple statements (size 1): sequences of loops at the smallest bound
\* (two loops over non-addressable arrays in one block need two distinct generated temporaries)
EmptyRanges == {RangeHdr("array", "call", "def", "def"), RangeHdr("slice", "call", "def", "def"), RangeHdr("array", "var", "def", "none"), RangeHdr("slice", "var", "asg", "idx")}
ARange == [simple |-> {Y(VarK), Y(VarV), Mut("sset", 2), Mut("sapp", 0), Mut("strunc", 0), Mut("aset", 2)} \cup EmptyRanges,
           inits |-> {None}, posts |-> {None}, conds |-> {T0}, ifinits |-> {None},
           kinds |-> {"range", "if"}, jumps |-> {"break", "continue"}, ranges |-> Ranges]
\* scoping of range loops (C03): `=` forms must assign the function-level variables (observed after the
\* loop), `:=` forms must not; slice operand only, larger bodies than F_range
ARScope == [ARange EXCEPT !.simple = {Y(VarK), Y(VarV)},
                          !.ranges = {RangeHdr("slice", "var", f[1], f[2]) :
                                        f \in {<<"asg", "asg">>, <<"blank", "asg">>, <<"asg", "none">>, <<"def", "def">>, <<"blank", "def">>}}]
ARangeX == [ARange EXCEPT !.simple = @ \cup {Mut("nset", 0), Mut("strset", 0), Mut("sset", 0), Mut("aset", 0)}]
A == CASE Family = "range" -> ARange [] Family = "rscope" -> ARScope [] Family = "rangex" -> ARangeX [] Family = "ctl" -> ACtl [] Family = "scope" -> AScope [] Family = "yf" -> AYf [] Family = "xf" -> AXf [] Family = "indep" -> AIndep [] Family = "gg" -> AGG [] Family = "yfl" -> AYfL [] Family = "panic" -> APanic [] Family = "nilit" -> ANilIt [] Family = "loopvar" -> ALoopVar [] Family = "ctlx" -> ACtlX [] Family = "eff" -> AEff [] Family = "expr" -> AExpr [] Family = "jump" -> AJump [] Family = "opt" -> AOpt [] Family = "by" -> ABy [] Family = "optx" -> AOptX [] Family = "byx" -> AByX [] Family = "unsup" -> AUnsup [] Family = "box" -> ABox [] Family = "lit" -> ALit

\* Go scoping: `a := ...` at most once per block and never in the function's top block
\* (a is a parameter there: "no new variables on left side of :=")
RECURSIVE ScopeOK(_, _)
NDef(b) == Cardinality({j \in 1..Len(b) : b[j].k \in {"def", "def2"}})
SubOK(s) == CASE s.k = "if"     -> ScopeOK(s.a, 1) /\ ScopeOK(s.b, 1)
              [] s.k = "switch" -> \A j \in 1..Len(s.cases) : ScopeOK(s.cases[j].body, 1)
              [] s.k \in {"block", "for"} -> ScopeOK(s.body, 1)
              [] OTHER -> TRUE
ScopeOK(b, max) == NDef(b) <= max /\ \A j \in 1..Len(b) : SubOK(b[j])
RECURSIVE HasK(_, _)
HasKS(s, kk) == s.k = kk \/ CASE s.k = "if" -> HasK(s.a, kk) \/ HasK(s.b, kk)
                              [] s.k = "switch" -> \E j \in 1..Len(s.cases) : HasK(s.cases[j].body, kk)
                              [] s.k \in {"block", "for", "range"} -> HasK(s.body, kk)
                              [] OTHER -> FALSE
HasK(b, kk) == \E j \in 1..Len(b) : HasKS(b[j], kk)
RECURSIVE HasItn(_)
HasItnS(s) == CASE s.k = "if" -> HasItn(s.a) \/ HasItn(s.b)
                [] s.k = "switch" -> \E j \in 1..Len(s.cases) : HasItn(s.cases[j].body)
                [] s.k = "block" -> HasItn(s.body)
                [] s.k = "for" -> (~IsNone(s.c) /\ s.c.k = "itn") \/ HasItn(s.body)
                [] OTHER -> FALSE
HasItn(b) == \E j \in 1..Len(b) : HasItnS(b[j])
RECURSIVE HasBoom(_), HasBoomS(_)
HasBoomS(s) == (s.k = "yield" /\ s.v.k = "b1")
               \/ CASE s.k = "if" -> HasBoom(s.a) \/ HasBoom(s.b)
                     [] s.k = "switch" -> \E j \in 1..Len(s.cases) : HasBoom(s.cases[j].body)
                     [] s.k = "block" -> HasBoom(s.body)
                     [] s.k = "for" -> HasBoom(s.body) \/ (~IsNone(s.init) /\ HasBoomS(s.init)) \/ (~IsNone(s.post) /\ HasBoomS(s.post))
                     [] OTHER -> FALSE
HasBoom(b) == \E j \in 1..Len(b) : HasBoomS(b[j])
\* a function without a Yield is not a generator for the tool (it would run eagerly: C13's business)
IsRangeFam == Family \in {"range", "rangex", "rscope"}
Member(p) == /\ (IF Family \in {"by", "byx"} THEN ~HasY(p) /\ HasK(p, "effx") ELSE HasY(p)) /\ (Family = "scope" => ScopeOK(p, 0)) /\ (Family = "panic" => (HasK(p, "panic") \/ HasBoom(p))) /\ (Family = "nilit" => HasItn(p)) /\ (Family = "loopvar" => (HasK(p, "capa") /\ HasK(p, "obscaps") /\ HasK(p, "for")))
             /\ (IsRangeFam \/ Family = "xf" => HasK(p, "range"))
             /\ (Family = "unsup" => CountU(p) = 1)
\* range family: every program ends with an observation of the function-level kk, vv and a final yield
\* (so range loops whose bodies do not yield are still inside a generator); a range loop without a
\* yield may also sit in a closure nested in the generator:  func() { for ... }()
RECURSIVE CloWrapB(_)
CloWrapS(s) == IF s.k = "range" THEN (IF HasY(s.body) THEN [s EXCEPT !.body = CloWrapB(@)] ELSE [s EXCEPT !.wrap = "closure"])
               ELSE IF s.k = "if" THEN [s EXCEPT !.a = CloWrapB(@), !.b = CloWrapB(@)] ELSE s
CloWrapB(b) == [j \in 1..Len(b) |-> CloWrapS(b[j])]
\* every range body starts with an observation of the loop's key and value: r.E(id, K, V)
RECURSIVE AddObsB(_)
AddObsS(s) == IF s.k = "range" THEN [s EXCEPT !.body = <<[k |-> "effkv", id |-> 0]>> \o AddObsB(@)]
              ELSE IF s.k = "if" THEN [s EXCEPT !.a = AddObsB(@), !.b = AddObsB(@)] ELSE s
AddObsB(b) == [j \in 1..Len(b) |-> AddObsS(b[j])]
Finish(raw) == IF IsRangeFam THEN LET tail == <<[k |-> "effkk", id |-> 0], [k |-> "effw", id |-> 0], Y(Lit0)>> IN
                                  {AddObsB(raw) \o tail, AddObsB(CloWrapB(raw)) \o tail}
               ELSE {raw}

\* fixed delegates of the delegation family: 2 = two yields, 3 = maybe empty,
\* 4 = recursive walk whose depth is bounded by the tape
D2 == <<Y(VarA), [k |-> "eff", id |-> 91], Y([k |-> "lit", v |-> 5])>>
D3 == <<[k |-> "if", init |-> None, c |-> [k |-> "t", id |-> 92], a |-> <<Y([k |-> "lit", v |-> 6])>>, b |-> <<>>]>>
D4 == <<[k |-> "if", init |-> None, c |-> [k |-> "t", id |-> 93],
         a |-> <<YF(4, [k |-> "add", n |-> "a", d |-> 1]), Y(VarA), YF(4, [k |-> "add", n |-> "a", d |-> 1])>>, b |-> <<>>]>>

RECURSIVE RepTape(_, _)
RepTape(p, n) == IF n = 0 THEN <<>> ELSE p \o RepTape(p, n - 1)
Tab == BuildTab(A, <<>>, IF Lazy THEN MaxSize - 1 ELSE MaxSize)
Small == UNION {Tab[m + 1].B["top"] : m \in 0..(IF Lazy THEN MaxSize - 1 ELSE MaxSize)}

VARIABLES prog, tape0, plen, w, wb, calls, obs, obsB
vars == <<prog, tape0, plen, w, wb, calls, obs, obsB>>

Start(p, tape, flags) ==
  LET w1 == Spawn(MW0(<<p, D2, D3, D4>>, tape, Budget, flags \cup (IF Family = "nilit" THEN {"nilit"} ELSE {})), 1, 0, 2).w IN
  IF Family \in {"yf", "xf", "indep"} THEN Spawn(w1, 2, 3, 2).w ELSE w1      \* yf: instance 2 is the local iterator  it := D2(r, 3, b)
Init == /\ \/ \E raw \in Small : \E fin \in Finish(raw) : prog = Label(fin)
           \/ (Lazy /\ \E raw \in {0} : FALSE)   \* (keeps TLC's Init shape uniform)
           \/ (Lazy /\ LET B(m, ctx) == Tab[m + 1].B[ctx] IN
                       \/ \E m \in 1..(MaxSize - 1) : \E s \in Tab[m + 1].S["top"], r \in B(MaxSize - m, "top") : prog = Label(<<s>> \o r)
                       \/ \E s \in Composite(A, MaxSize, "top", B) : prog = Label(<<s>>))
        /\ Member(prog)
        /\ IF TapeRep = 0 THEN tape0 \in Tapes(TapeLen) /\ plen = 0
           ELSE \E pre \in Tapes(PrefixLen), p \in Tapes(TapeLen) \ {<<>>} : tape0 = pre \o RepTape(p, TapeRep) /\ plen = Len(pre)
        /\ w = Start(prog, tape0, {})
        /\ wb = Start(prog, tape0, OpenFlags)
        /\ calls = 0 /\ obs = <<>> /\ obsB = <<>>

\* one call of the consumer: it.MoveNext() on instance 1, or (family gg) one MoveNext of the flattening consumer
AdvF(x) == IF Family = "gg" THEN GGStep(x, 0)
           ELSE LET r == Adv(1, x) IN [ok |-> r.ok, cur |-> r.w.cos[1].cur, w |-> r.w]
Event(w0, r) == [op |-> "next", ok |-> r.ok, cur |-> r.cur, panic |-> r.w.panic, effs |-> NewLog(w0, r.w)]
MoveNext ==
  /\ calls < MaxCalls /\ ~(Panicked(w) /\ Panicked(wb))
  /\ LET r == AdvF(w) IN
     /\ w' = IF Panicked(w) THEN w ELSE r.w
     /\ obs' = IF Panicked(w) THEN obs ELSE Append(obs, Event(w, r))
     /\ IF OpenFlags = {}
        THEN wb' = w' /\ obsB' = obs'
        ELSE LET b == AdvF(wb) IN
             /\ wb' = IF Panicked(wb) THEN wb ELSE b.w
             /\ obsB' = IF Panicked(wb) THEN obsB ELSE Append(obsB, Event(wb, b))
  /\ calls' = calls + 1 /\ UNCHANGED <<prog, tape0, plen>>
Next == MoveNext
Spec == Init /\ [][Next]_vars

NoSpin == w.panic # "spin" /\ wb.panic # "spin"
\* C02 at the level of the reference: creating an instance performs no effect
LazyStart == calls = 0 => w.log = <<>>
\* C09 fragment for source coroutines: exhaustion is permanent, current is zero when done
DoneStaysDone == [][(Family # "gg" /\ w.cos[1].done) => (w'.cos[1].done /\ w'.log = w.log /\ w'.cos[1].cur = Zero)]_vars

Done == calls = MaxCalls \/ (Panicked(w) /\ Panicked(wb))
Emit == Done => PrintT(ToJson([fam |-> Family, prog |-> prog, tape |-> tape0, plen |-> plen, ideal |-> obs,
                               reta |-> Get(w, w.cos[1].penv, "a"),
                               same |-> obs = obsB, asbuilt |-> IF obs = obsB THEN <<>> ELSE obsB]))
=============================================================================
