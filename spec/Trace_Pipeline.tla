--------------------------- MODULE Trace_Pipeline ---------------------------
(* Trace validation of the generator tool against Pipeline.tla (C15, C16).
   The harness replays the scenarios enumerated by MC_Pipeline.tla on the real
   tool (rewriter.GoGen through an ordinary binary, and cmd/cogen through
   `go generate`) and records one event per action:
     {"op":"reset"}                                      a new scenario (fresh module directory)
     {"op":"other"}                                      add / del / edit / stale: no obligations
     {"op":"gen","dir":D,"rc":N,"before":[F..],"after":[F..],"build":N,"test":N,"buildco":N}
   with F = {"dir":[..],"base":B,"suffix":S,"sha":H,"tag":"co"|"!co"|"","header":BOOLEAN,"uses":BOOLEAN}.
   The function gen from source content to generated content is NOT logged: the
   first observation binds it, every later one -- in any scenario of the file,
   next to any other files, after any earlier outputs -- must agree.  That IS
   determinism and independence of unrelated inputs. *)
EXTENDS Pipeline, TLC, Json, IOUtils

CONSTANTS AsBuiltRoot,  \* KF12 (as built): run in the module's root directory, the tool writes nothing
          AsBuiltDepType, \* KF34 (as built): see ProvisionalDep
          AsBuiltDep    \* KF21 (as built): a source importing a package of the same run that has no generated files yet makes the tool fail

Trace == ndJsonDeserialize(IOEnv.VERIF_TRACE)
ToSet(sq) == {sq[i] : i \in 1..Len(sq)}
\* the temporary directory of a run in directory d is the sibling <d>_tmp (dirs are sequences of names;
\* the harness encodes the sibling of the top-level package directory x as the top-level directory "x_tmp")
TmpOf(d) == IF Len(d) = 0 THEN "_tmp" ELSE d[1] \o "_tmp"
InTmp(f, d) == Len(f.dir) > 0 /\ f.dir[1] = TmpOf(d)
IsSrc(f) == IsSource(f) /\ f.tag = "co" /\ f.uses

VARIABLES l, gen
vars == <<l, gen>>
Init == l = 1 /\ gen = {}            \* gen: set of <<source sha, output sha>> pairs, kept functional
Lookup(g, k) == {p[2] : p \in {q \in g : q[1] = k}}

GoGenOK(e, g) ==
  LET B == ToSet(e.before) A == ToSet(e.after)
      srcs == {f \in B : IsSrc(f) /\ Under(f, e.dir)}
      outs == {Derived(f) : f \in srcs} IN
  /\ e.rc = 0
  /\ \A f \in B : (Path(f) \notin outs /\ ~InTmp(f, e.dir)) => f \in A   \* nothing else modified or removed
  /\ \A o \in A : ~InTmp(o, e.dir) /\ Path(o) \in {Path(f) : f \in B} \cup outs  \* nothing else created, no temporary directory left
  /\ \A f \in srcs : \E o \in A :
        /\ Path(o) = Derived(f) /\ o.tag = "!co" /\ o.header               \* exactly the derived sibling, constraint and header
        /\ Lookup(g, f.sha) \subseteq {o.sha}                              \* same source => same bytes as ever before
  /\ e.build = 0 /\ e.test = 0 /\ e.buildco = 0                            \* builds and tests pass without the tag, type-checks with it
\* KF12 (as built): in the module root the temporary directory lies outside the module and nothing is written
RootAsBuilt(e) == AsBuiltRoot /\ e.dir = <<>> /\ ToSet(e.after) = ToSet(e.before)
\* KF21 (as built): the optimiser reloads the staged files WITHOUT the co tag; a staged file importing a package
\* whose generated (untagged) files do not exist yet cannot be type-checked and the tool panics ("illegal state").
\* Identified by the layout: a source `usesub` under the run directory while p/sub has no generated file yet.
\* Even then nothing but derived outputs may appear and nothing may be modified or removed.
DepAsBuilt(e) ==
  LET B == ToSet(e.before) A == ToSet(e.after)
      srcs == {f \in B : IsSrc(f) /\ Under(f, e.dir)}
      outs == {Derived(f) : f \in srcs} IN
  /\ AsBuiltDep /\ e.rc # 0
  /\ \E f \in srcs : f.base = "usesub"
  /\ ~\E f \in B : f.dir = <<"p", "sub">> /\ f.suffix = ".go"
  /\ \A f \in B : (Path(f) \notin outs /\ ~InTmp(f, e.dir)) => f \in A
  /\ \A o \in A : ~InTmp(o, e.dir) /\ Path(o) \in {Path(f) : f \in B} \cup outs
NewBindings(e, g) ==
  LET B == ToSet(e.before) A == ToSet(e.after) IN
  {<<f.sha, o.sha>> : f \in {x \in B : IsSrc(x) /\ Under(x, e.dir)}, o \in {y \in A : TRUE}}
    \cap {p \in {<<f.sha, o.sha>> : f \in B, o \in A} :
            \E f \in B, o \in A : IsSrc(f) /\ Under(f, e.dir) /\ Path(o) = Derived(f) /\ p = <<f.sha, o.sha>>
                                  /\ Lookup(g, f.sha) = {}}     \* the FIRST observation binds

\* KF34 (as built): the optimiser type-checks the staged files against what is on disk; while a package of the
\* same run has no generated file yet its declarations are unknown there, and optimisations that need type
\* information (eta reduction of a closure whose type mentions such a declaration) are skipped -- in the first
\* run only.  Identified by the layout: the source `dep` observed while p/sub/c.go does not exist yet; such an
\* observation is provisional, it does not bind gen.  Everything else of GoGenOK still applies to that run,
\* and every later run must reproduce the bytes of the first non-provisional one.
ProvisionalDep(e, p) ==
  /\ AsBuiltDepType
  /\ \E f \in ToSet(e.before) : IsSrc(f) /\ f.base = "dep" /\ f.sha = p[1]
  /\ ~\E f \in ToSet(e.before) : f.dir = <<"p", "sub">> /\ f.base = "c" /\ f.suffix = ".go"
Gen == /\ l <= Len(Trace) /\ Trace[l].op = "gen"
       /\ (GoGenOK(Trace[l], gen) \/ RootAsBuilt(Trace[l]) \/ DepAsBuilt(Trace[l]))
       /\ gen' = IF Trace[l].rc = 0 THEN gen \cup {p \in NewBindings(Trace[l], gen) : ~ProvisionalDep(Trace[l], p)} ELSE gen
       /\ l' = l + 1
Other == /\ l <= Len(Trace) /\ Trace[l].op \in {"reset", "other"} /\ l' = l + 1 /\ UNCHANGED gen
Next == Gen \/ Other
Spec == Init /\ [][Next]_vars
\* gen stays a function
Functional == \A p \in gen, q \in gen : p[1] = q[1] => p[2] = q[2]
TraceAccepted == TLCGet("stats").diameter - 1 = Len(Trace)
=============================================================================
