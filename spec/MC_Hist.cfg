SPECIFICATION Spec
CHECK_DEADLOCK FALSE
INVARIANT Inv
INVARIANT RefAgree
INVARIANT AbstractInv
PROPERTY Permanent
PROPERTY Abstract
CONSTRAINT Emit
CONSTANTS
 MaxOps = 5
 Budget = 40
