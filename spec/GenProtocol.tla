---------------------------- MODULE GenProtocol ----------------------------
(* C09, abstractly: the iterator protocol of seq.generator with the coroutine
   abstracted to a nondeterministic source of `yield v` / `finish r`.
   Small enough for an unbounded argument: IndInv is an inductive invariant
   (checked by Apalache: Init => IndInv, IndInv /\ Next => IndInv') and TLC
   checks that SeqMachine refines this machine (MC_Hist.tla, property Abstract). *)
EXTENDS Integers
VARIABLES
  \* @type: Bool;
  started,
  \* @type: Bool;
  live,       \* next # nil
  \* @type: Int;
  current,
  \* @type: Int;
  result,
  \* @type: Bool;
  lastOk      \* what the last advance reported (TRUE before any advance)

gvars == <<started, live, current, result, lastOk>>
Vals == 0..9

Init == started = FALSE /\ live = TRUE /\ current = 0 /\ result = 0 /\ lastOk = TRUE

\* one internal advance (generator.moveNext) as a relation between
\* (live, current, result) before and (live, current, result, reported ok) after
AdvRel(l, c, r, l2, c2, r2, ok2) ==
  \/ l /\ l2 = TRUE /\ c2 \in Vals /\ r2 = r /\ ok2 = TRUE        \* the coroutine yields c2
  \/ l /\ l2 = FALSE /\ c2 = 0 /\ r2 \in Vals /\ ok2 = FALSE      \* it finishes with result r2
  \/ ~l /\ l2 = FALSE /\ c2 = c /\ r2 = r /\ ok2 = FALSE           \* already exhausted: nothing runs

MoveNext == started' = TRUE /\ AdvRel(live, current, result, live', current', result', lastOk')
\* Send(v): an unstarted generator is first advanced to its first yield (if that
\* advance already reports false, Send returns); then it is resumed.  The value
\* sent is consumed by the coroutine and is not visible at this level of abstraction.
Send == /\ started' = TRUE
        /\ \E l1 \in BOOLEAN, c1 \in Vals, r1 \in Vals, ok1 \in BOOLEAN :
             /\ IF started THEN l1 = live /\ c1 = current /\ r1 = result /\ ok1
                           ELSE AdvRel(live, current, result, l1, c1, r1, ok1)
             /\ IF ~ok1 THEN live' = l1 /\ current' = c1 /\ result' = r1 /\ lastOk' = ok1
                        ELSE AdvRel(l1, c1, r1, live', current', result', lastOk')
Current == UNCHANGED gvars
Result == UNCHANGED gvars
Next == MoveNext \/ Send \/ Current \/ Result
Spec == Init /\ [][Next]_gvars

TypeOK == started \in BOOLEAN /\ live \in BOOLEAN /\ current \in Vals /\ result \in Vals /\ lastOk \in BOOLEAN
\* C09: current is zero when fresh or exhausted; exhaustion is permanent (an advance
\* that reported false leaves the iterator dead, and a dead iterator never revives)
IndInv == /\ TypeOK
          /\ (~started => current = 0 /\ live /\ lastOk)
          /\ (~live => current = 0)
          /\ (~lastOk => ~live)
\* action form of "exhaustion is permanent"
DeadStaysDead == [][~live => (~live' /\ current' = 0 /\ result' = result)]_gvars
=============================================================================
