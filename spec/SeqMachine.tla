---------------------------- MODULE SeqMachine ----------------------------
(* The seq runtime (seq/seq.go) as a defunctionalised CPS machine: one operator
   per Go function, the pending step `co.step`, the continuation as an explicit
   sequence of frames, and the number of CPS activations that Go keeps on its
   stack during one advance (`depth`).

     Go (seq/seq.go)                         here
     ------------------------------------    ---------------------------------
     Start                                   NewGen
     mkNextRecv / mkNext                     RunNext   (take-and-clear the step)
     Bind / BindRecv                         RunSeq, clause "bind"/"bindrecv"
     Delay, Combine, seqOfK, ReturnValue     RunSeq, one clause each
     For / While / Loop                      RunSeq "for" + Loop + CallK "for"
     the continuations passed around         CallK over frames start|comb|for
     generator.MoveNext/Send/moveNext        DoMoveNext / DoSend / MoveNextRaw
     generator.Current / Result              g.current / w.result

   Terms close over ONE mutable int `x` (world field), so that the difference
   between evaluating an argument when a term is *constructed* and when it is
   *run* is observable (Bind(x, ..) reads x at construction).

   Term expressions (what a Go expression such as seq.Bind(x, f) denotes):
     [k:"bind",v,f] [k:"bindrecv",v,f] [k:"delay",f] [k:"comb",a,b]
     [k:"for",c,p,body] [k:"forpost",c,post,body] [k:"brk",body] [k:"sig",t] [k:"retval",v]
     v: [k:"lit",v] | [k:"x"]      c: None | [id]     p: None | [id]
   Thunks  f = [rl, pre, body]:  func(recv) Seq { r.R(rl,recv)?; pre...; body }
     pre : sequence of [k:"eff",id] | [k:"inc"] | [k:"panic"]
     body: [k:"ret",e] | [k:"ifret",id,a,b]   (if r.T(id) {return a}; return b) *)
EXTENDS Rec

\* Is the loop driver of For a trampoline (iterates) or does the body's
\* continuation re-enter it recursively?  Kept equal to the code at HEAD.
Trampolined == TRUE

W0(tape, budget) == [x |-> 0, log |-> <<>>, tape |-> tape, budget |-> budget,
                     step |-> None, depth |-> 0, maxd |-> 0, epoch |-> 0,
                     result |-> Zero, panic |-> "", fuel |-> 400]

Enter(w) == [w EXCEPT !.depth = @ + 1, !.maxd = IF w.depth + 1 > @ THEN w.depth + 1 ELSE @]

\* ---------------------------------------------------------------- host code
EvalV(ve, w) == IF ve.k = "lit" THEN ve.v ELSE w.x
RECURSIVE ExecPre(_, _)
ExecPre(ss, w) ==
  IF ss = <<>> \/ Panicked(w) THEN w
  ELSE LET s == Head(ss) IN
       CASE s.k = "eff"   -> ExecPre(Tail(ss), Log(w, <<"e", s.id, w.x>>))
         [] s.k = "inc"   -> ExecPre(Tail(ss), [w EXCEPT !.x = @ + 1])
         [] s.k = "panic" -> [w EXCEPT !.panic = "boom"]

\* construction of a term expression: value arguments are evaluated NOW
RECURSIVE Construct(_, _)
Construct(te, w) ==
  CASE te.k = "bind"     -> [s |-> "bind", v |-> EvalV(te.v, w), f |-> te.f]
    [] te.k = "bindrecv" -> [s |-> "bindrecv", v |-> EvalV(te.v, w), f |-> te.f]
    [] te.k = "delay"    -> [s |-> "delay", f |-> te.f]
    [] te.k = "comb"     -> [s |-> "comb", a |-> Construct(te.a, w), b |-> Construct(te.b, w)]
    [] te.k = "for"      -> [s |-> "for", c |-> te.c, p |-> te.p, body |-> Construct(te.body, w)]
    [] te.k = "brk"      -> [s |-> "brk", body |-> Construct(te.body, w)]
    \* ForPost(cond, post, body) == For(cond, nil, <body, then post unless break / return>)
    [] te.k = "forpost"  -> [s |-> "for", c |-> te.c, p |-> None,
                             body |-> [s |-> "fpbody", post |-> Construct(te.post, w), body |-> Construct(te.body, w)]]
    [] te.k = "sig"      -> [s |-> "sig", t |-> te.t]
    [] te.k = "retval"   -> [s |-> "retval", v |-> EvalV(te.v, w)]

\* thunk call f(recv) -> [sv, w];  [k:"const",sv] is Start's  func() Seq { return seq }
CallThunk(f, recv, w0) ==
  IF "k" \in DOMAIN f /\ f.k = "const" THEN [sv |-> f.sv, w |-> w0]
  ELSE
  LET w1 == IF f.rl = 0 THEN w0 ELSE Log(w0, <<"r", f.rl, recv>>)
      w2 == ExecPre(f.pre, w1) IN
  IF Panicked(w2) THEN [sv |-> None, w |-> w2]
  ELSE IF f.body.k = "ret" THEN [sv |-> Construct(f.body.e, w2), w |-> w2]
  ELSE LET r == ReadTape(w2, f.body.id) IN
       IF Panicked(r.w) THEN [sv |-> None, w |-> r.w]
       ELSE [sv |-> Construct(IF r.b THEN f.body.a ELSE f.body.b, r.w), w |-> r.w]

\* ---------------------------------------------------------------- CPS machine
RECURSIVE RunSeq(_, _, _), CallK(_, _, _, _), Loop(_, _, _, _)

ForFrame(l, w) == [f |-> "for", l |-> l, d |-> w.depth, epoch |-> w.epoch]

\* sv(c, k)
RunSeq(sv, k, w0) ==
  LET w == Enter(w0) IN
  IF Panicked(w) THEN w
  ELSE CASE sv.s \in {"bind", "bindrecv"} ->        \* store the step, return WITHOUT calling k
              [w EXCEPT !.step = [value |-> sv.v, next |-> [f |-> sv.f, k |-> k, recv |-> sv.s = "bindrecv"]]]
         [] sv.s = "delay" -> LET r == CallThunk(sv.f, Zero, w) IN
                              IF Panicked(r.w) THEN r.w ELSE RunSeq(r.sv, k, r.w)
         [] sv.s = "comb"  -> RunSeq(sv.a, <<[f |-> "comb", s2 |-> sv.b]>> \o k, w)
         [] sv.s = "for"   -> Loop(sv, k, TRUE, w)
         [] sv.s = "brk"   -> RunSeq(sv.body, <<[f |-> "brk"]>> \o k, w)      \* Breakable: body(c, k') with k' below
         [] sv.s = "fpbody" -> RunSeq(sv.body, <<[f |-> "fp", post |-> sv.post]>> \o k, w)   \* ForPost's body wrapper
         [] sv.s = "sig"   -> CallK(k, sv.t, Zero, w)
         [] sv.s = "retval"-> CallK(k, "return", sv.v, w)

\* k(t, v)
CallK(k, t, v, w0) ==
  LET w == Enter(w0) fr == Head(k) rest == Tail(k) IN
  CASE fr.f = "start" -> [w EXCEPT !.result = v]              \* Start's final continuation
    [] fr.f = "comb"  -> IF t = "normal" THEN RunSeq(fr.s2, rest, w) ELSE CallK(rest, t, v, w)
    [] fr.f = "brk"   -> IF t = "break" THEN CallK(rest, "normal", Zero, w) ELSE CallK(rest, t, v, w)
    [] fr.f = "fp"    -> IF t \in {"normal", "continue"} THEN RunSeq(fr.post, rest, w) ELSE CallK(rest, t, v, w)
    [] fr.f = "for"   ->
         CASE t \in {"normal", "continue"} ->
                \* recursive driver: loop(false) is one more activation on top of everything;
                \* trampoline: if the driver that pushed this frame is still on the stack
                \* (same advance), control returns to it and the stack is as deep as it was there
                IF Trampolined /\ fr.epoch = w.epoch
                THEN Loop(fr.l, rest, FALSE, [w EXCEPT !.depth = fr.d - 1])
                ELSE Loop(fr.l, rest, FALSE, w)
           [] t = "break"  -> CallK(rest, "normal", Zero, w)
           [] t = "return" -> CallK(rest, "return", v, w)

\* For's loop(skipPost): post unless skipPost; cond; body(c, for-continuation) or k(normal)
Loop(l, k, skipPost, w0) ==
  LET w  == Tick(Enter(w0))
      w1 == IF Panicked(w) \/ IsNone(l.p) \/ skipPost THEN w
            ELSE LET a == Log(w, <<"p", l.p.id, w.x>>) IN IF Panicked(a) THEN a ELSE [a EXCEPT !.x = @ + 1] IN
  IF Panicked(w1) THEN w1
  ELSE IF IsNone(l.c) THEN RunSeq(l.body, <<ForFrame(l, w1)>> \o k, w1)
  ELSE LET r == ReadTape(w1, l.c.id) IN
       IF Panicked(r.w) THEN r.w
       ELSE IF r.b THEN RunSeq(l.body, <<ForFrame(l, r.w)>> \o k, r.w)
       ELSE CallK(k, "normal", Zero, r.w)

\* mkNextRecv: f(recv)(c,k); s := c.step; c.step = nil; return s      -> [s, w]
RunNext(nx, recv, w0) ==
  LET w  == [w0 EXCEPT !.depth = 0, !.maxd = 0, !.epoch = @ + 1]
      r  == CallThunk(nx.f, IF nx.recv THEN recv ELSE Zero, w) IN
  IF Panicked(r.w) THEN [s |-> None, w |-> r.w]
  ELSE LET w2 == RunSeq(r.sv, nx.k, r.w) IN
       [s |-> w2.step, w |-> [w2 EXCEPT !.step = None]]

\* ---------------------------------------------------------------- generator object
\* g: [started, next, current]; the result lives in the world (written by the start frame)
NewGen(te, w) == [started |-> FALSE,
                  next |-> [f |-> [k |-> "const", sv |-> Construct(te, w)], k |-> <<[f |-> "start"]>>, recv |-> FALSE],
                  current |-> Zero]

\* generator.moveNext(sent) -> [ok, g, w]
MoveNextRaw(g, sent, w) ==
  IF IsNone(g.next) THEN [ok |-> FALSE, g |-> g, w |-> w]
  ELSE LET r == RunNext(g.next, sent, w) IN
       IF Panicked(r.w) THEN [ok |-> FALSE, g |-> g, w |-> r.w]
       ELSE IF IsNone(r.s) THEN [ok |-> FALSE, g |-> [g EXCEPT !.next = None, !.current = Zero], w |-> r.w]
       ELSE [ok |-> TRUE, g |-> [g EXCEPT !.next = r.s.next, !.current = r.s.value], w |-> r.w]

DoMoveNext(g, w) == MoveNextRaw([g EXCEPT !.started = TRUE], Zero, w)

\* generator.Send(v) -> [ok, val, g, w]
DoSend(g, v, w) ==
  LET first == IF g.started THEN [ok |-> TRUE, g |-> g, w |-> w] ELSE DoMoveNext(g, w) IN
  IF Panicked(first.w) THEN [ok |-> FALSE, val |-> Zero, g |-> first.g, w |-> first.w]
  ELSE IF ~first.ok THEN [ok |-> FALSE, val |-> Zero, g |-> first.g, w |-> first.w]
  ELSE LET r == MoveNextRaw(first.g, v, first.w) IN
       IF r.ok THEN [ok |-> TRUE, val |-> r.g.current, g |-> r.g, w |-> r.w]
       ELSE [ok |-> FALSE, val |-> Zero, g |-> r.g, w |-> r.w]
=============================================================================
