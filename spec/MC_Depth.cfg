SPECIFICATION Spec
CHECK_DEADLOCK FALSE
INVARIANT NoSpin
INVARIANT DepthBounded
CONSTRAINT Emit
CONSTANTS
 MaxSize = 3
 MaxCalls = 3
 Reps = 12
 Budget = 120
 PrefixLen = 2
