------------------------------ MODULE Pipeline ------------------------------
(* The file-level contract of the generator tool (rewriter.GoGen / cmd/cogen run
   by go:generate) -- C15, C16 -- over an abstract file system.

   A file is a record [dir, base, suffix, content]:
     suffix  "_co.go" | "_co_test.go" (sources of the tool), ".go" | "_test.go" (everything else)
     content an opaque content id; Uses(content) says whether that content uses the API
   GoGen(d) must write, for every source file under d (recursively) whose content
   uses the API, exactly one derived sibling (suffix with "_co" removed) whose
   content is Gen(content) -- a FUNCTION of the source content alone (determinism,
   independence of every other file, of earlier outputs, of the order of runs) --
   and must create, modify or leave behind nothing else.  Gen is uninterpreted
   here; trace validation (Trace_Pipeline.tla) infers it from the observed runs. *)
EXTENDS Integers, Sequences, FiniteSets

IsSource(f) == f.suffix \in {"_co.go", "_co_test.go"}
OutSuffix(sfx) == IF sfx = "_co.go" THEN ".go" ELSE "_test.go"
Under(f, d) == f.dir = d \/ (Len(f.dir) > Len(d) /\ SubSeq(f.dir, 1, Len(d)) = d)   \* dirs are sequences of names
Path(f) == <<f.dir, f.base, f.suffix>>
Derived(f) == <<f.dir, f.base, OutSuffix(f.suffix)>>

\* the abstract tool: fs is a set of files, uses: content -> BOOLEAN, gen: content -> content
GoGenResult(fs, d, uses, gen(_)) ==
  LET srcs == {f \in fs : IsSource(f) /\ Under(f, d) /\ uses[f.content]}
      outs == {[dir |-> f.dir, base |-> f.base, suffix |-> OutSuffix(f.suffix), content |-> gen(f.content)] : f \in srcs}
      keep == {f \in fs : Path(f) \notin {Path(o) : o \in outs}} IN
  keep \cup outs
=============================================================================
