SPECIFICATION SpecRnd
CHECK_DEADLOCK FALSE
INVARIANT RefAgree
INVARIANT Protocol
INVARIANT NoSpin
CONSTRAINT Emit
CONSTANTS
 MaxSize = 1
 TapeLen = 1
 MaxCalls = 7
 Budget = 60
 WithRecv = FALSE
 Fam = "size"
