SPECIFICATION Spec
CHECK_DEADLOCK FALSE
INVARIANT SoloAgree
CONSTRAINT Emit
CONSTANTS
 K = 2
 M = 3
 Budget = 40
