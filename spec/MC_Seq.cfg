SPECIFICATION Spec
CHECK_DEADLOCK FALSE
INVARIANT RefAgree
INVARIANT Protocol
INVARIANT NoSpin
CONSTRAINT Emit
CONSTANTS
 MaxSize = 3
 TapeLen = 3
 MaxCalls = 4
 Budget = 30
 WithRecv = TRUE
 Fam = "size"
