------------------------------ MODULE RangeSem ------------------------------
(* Go's `range` semantics for the collection kinds that go-co replaces by
   iterators (seq/iter.go): the oracle for C10 and, embedded in generator
   programs, for C04.  Validated against native Go range loops on every case.

   Strings: `for i, r := range s` over a string given as a byte sequence:
   transcription of the UTF-8 acceptance table of unicode/utf8 (lead byte
   classes, special second-byte ranges for E0/ED/F0/F4), U+FFFD with width 1 on
   any invalid or truncated sequence, BYTE OFFSETS as keys.
   Integers: 0..n-1, nothing for n <= 0.
   Slices: the range expression is evaluated once (header snapshot: offset and
   length), elements are read live at each iteration.
   Channels: values in FIFO order until the channel is closed and drained.
   Maps: see Trace_Map.tla (iteration order is not specified: trace validation). *)
EXTENDS Integers, Sequences

RuneError == 65533
In(b, lo, hi) == lo <= b /\ b <= hi
Cont(b) == In(b, 128, 191)

\* size and second-byte range demanded by a lead byte; size 0 = invalid lead, 1 = ASCII
Lead(b) ==
  CASE b <= 127          -> [sz |-> 1, lo |-> 0,   hi |-> 0]
    [] In(b, 194, 223)   -> [sz |-> 2, lo |-> 128, hi |-> 191]
    [] b = 224           -> [sz |-> 3, lo |-> 160, hi |-> 191]
    [] In(b, 225, 236)   -> [sz |-> 3, lo |-> 128, hi |-> 191]
    [] b = 237           -> [sz |-> 3, lo |-> 128, hi |-> 159]
    [] In(b, 238, 239)   -> [sz |-> 3, lo |-> 128, hi |-> 191]
    [] b = 240           -> [sz |-> 4, lo |-> 144, hi |-> 191]
    [] In(b, 241, 243)   -> [sz |-> 4, lo |-> 128, hi |-> 191]
    [] b = 244           -> [sz |-> 4, lo |-> 128, hi |-> 143]
    [] OTHER             -> [sz |-> 0, lo |-> 0,   hi |-> 0]

\* decode at position i (1-based) : [r, w]
Decode(s, i) ==
  LET b0 == s[i]  ld == Lead(b0)  n == Len(s) - i + 1  bad == [r |-> RuneError, w |-> 1] IN
  IF ld.sz = 1 THEN [r |-> b0, w |-> 1]
  ELSE IF ld.sz = 0 \/ n < ld.sz THEN bad
  ELSE IF ~In(s[i+1], ld.lo, ld.hi) THEN bad
  ELSE IF ld.sz = 2 THEN [r |-> (b0 % 32) * 64 + (s[i+1] % 64), w |-> 2]
  ELSE IF ~Cont(s[i+2]) THEN bad
  ELSE IF ld.sz = 3 THEN [r |-> (b0 % 16) * 4096 + (s[i+1] % 64) * 64 + (s[i+2] % 64), w |-> 3]
  ELSE IF ~Cont(s[i+3]) THEN bad
  ELSE [r |-> (b0 % 8) * 262144 + (s[i+1] % 64) * 4096 + (s[i+2] % 64) * 64 + (s[i+3] % 64), w |-> 4]

RECURSIVE RangeFrom(_, _)
\* pairs <<key, rune>>; keys are BYTE OFFSETS (0-based)
RangeFrom(s, i) ==
  IF i > Len(s) THEN <<>>
  ELSE LET d == Decode(s, i) IN <<<<i - 1, d.r>>>> \o RangeFrom(s, i + d.w)
RangeString(s) == RangeFrom(s, 1)

RangeInt(n) == [j \in 1..(IF n > 0 THEN n ELSE 0) |-> <<j - 1, 0>>]
=============================================================================
