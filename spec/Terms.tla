------------------------------- MODULE Terms -------------------------------
(* T_term: the family of combinator terms over which C08 / C09 / C17 quantify,
   enumerated by size (number of combinator nodes) with a dynamic-programming
   table: level n is computed once from the levels below it (TLC caches only
   zero-arity definitions, so a plainly recursive grammar is recomputed
   exponentially often). *)
EXTENDS SeqStructured, FiniteSets

Pres   == {<<>>, <<[k |-> "inc"]>>, <<[k |-> "eff", id |-> 1]>>}
Vs     == {[k |-> "lit", v |-> 5], [k |-> "x"]}
Cs     == {None, [id |-> 2]}
Ps     == {None, [id |-> 3]}
Sigs   == {[k |-> "sig", t |-> t] : t \in {"normal", "break", "continue", "return"}}
Leaves == Sigs \cup {[k |-> "retval", v |-> v] : v \in Vs}

\* thunks whose returned term(s) have total size m, given the table of smaller levels
ThunksFrom(tab, m, rl) ==
  {[rl |-> rl, pre |-> p, body |-> [k |-> "ret", e |-> e]] : p \in Pres, e \in tab[m]}
  \cup UNION {{[rl |-> rl, pre |-> <<>>, body |-> [k |-> "ifret", id |-> 4, a |-> a, b |-> b]]
               : a \in tab[i], b \in tab[m - i]} : i \in 1..(m - 1)}

\* level n from levels 1..n-1 (tab[i] = all terms of size i)
TermLevel(tab, n, withRecv) ==
  IF n = 1 THEN Leaves
  ELSE {[k |-> "bind", v |-> v, f |-> f] : v \in Vs, f \in ThunksFrom(tab, n - 1, 0)}
   \cup (IF withRecv THEN {[k |-> "bindrecv", v |-> v, f |-> f] : v \in Vs, f \in ThunksFrom(tab, n - 1, 9)} ELSE {})
   \cup {[k |-> "delay", f |-> f] : f \in ThunksFrom(tab, n - 1, 0)}
   \cup UNION {{[k |-> "comb", a |-> a, b |-> b] : a \in tab[i], b \in tab[n - 1 - i]} : i \in 1..(n - 2)}
   \cup {[k |-> "for", c |-> c, p |-> p, body |-> b] : c \in Cs, p \in Ps, b \in tab[n - 1]}
   \cup {[k |-> "brk", body |-> b] : b \in tab[n - 1]}          \* seq.Breakable(body)
   \* seq.ForPost(cond, post, body): the post statement is itself a Seq; it runs after the body completes
   \* normally or by Continue
   \cup UNION {{[k |-> "forpost", c |-> [id |-> 2], post |-> p, body |-> b] : p \in tab[i], b \in tab[n - 1 - i]} : i \in 1..(n - 2)}

RECURSIVE BuildTerms(_, _, _)
BuildTerms(tab, n, withRecv) ==
  IF Len(tab) >= n THEN tab ELSE BuildTerms(Append(tab, TermLevel(tab, Len(tab) + 1, withRecv)), n, withRecv)

\* ---- well-formedness: every loop iteration must spend budget, yield, or leave
\*      the loop (otherwise the specification and Go both spin)
HasEff(pre) == \E i \in 1..Len(pre) : pre[i].k = "eff"
RECURSIVE Spends(_), WF(_)
Spends(t) ==   \* every path through t spends budget, yields or returns
  CASE t.k \in {"bind", "bindrecv", "retval"} -> TRUE
    [] t.k = "delay" -> HasEff(t.f.pre) \/ t.f.body.k = "ifret"
    [] t.k = "comb"  -> Spends(t.a)
    [] t.k = "for"   -> ~IsNone(t.c) \/ Spends(t.body)
    [] t.k = "brk"   -> Spends(t.body)
    [] t.k = "forpost" -> TRUE      \* the condition reads the tape
    [] t.k = "sig"   -> t.t = "return"
Guard(t) == Spends(t) \/ (t.k = "sig" /\ t.t = "break")
WFThunk(f) == IF f.body.k = "ret" THEN WF(f.body.e) ELSE WF(f.body.a) /\ WF(f.body.b)
WF(t) ==
  CASE t.k \in {"bind", "bindrecv", "delay"} -> WFThunk(t.f)
    [] t.k = "comb" -> WF(t.a) /\ WF(t.b)
    [] t.k = "for"  -> (~IsNone(t.c) \/ ~IsNone(t.p) \/ Guard(t.body)) /\ WF(t.body)
    [] t.k = "brk"  -> WF(t.body)
    [] t.k = "forpost" -> WF(t.post) /\ WF(t.body)
    [] OTHER -> TRUE

\* ---- T_nest: nested loops whose INNER loop is one Seq value run once per outer iteration (the body of a
\*      `for` term is built once, seq.For(cond, post, <value>)), so that a second run of the same loop value
\*      starts while the first is still unwinding on the Go stack.  The inner body chooses by the tape between
\*      two alternatives out of: a signal, a yield followed by a signal, a second tape-guarded pair of signals --
\*      iterations that suspend, that complete synchronously, and that leave the loop, in every order.
\*      Both loops have tape conditions (an outer loop without condition never returns into the frames of an
\*      earlier inner run); the shortest history with a suspension, a Break in the resumed driver, a nested
\*      second run that completes an iteration synchronously and ends by its condition reads 8 tape entries.
Distinct2(S) == {pr \in S \X S : pr[1] # pr[2]}
NestSigs == {[k |-> "sig", t |-> t] : t \in {"normal", "break", "continue"}}
Th(e)      == [rl |-> 0, pre |-> <<>>, body |-> [k |-> "ret", e |-> e]]
IfTh(a, b) == [rl |-> 0, pre |-> <<>>, body |-> [k |-> "ifret", id |-> 4, a |-> a, b |-> b]]
NestAlt == Sigs \cup {[k |-> "bind", v |-> [k |-> "lit", v |-> 5], f |-> Th(s)] : s \in NestSigs}
                \cup {[k |-> "delay", f |-> IfTh(pr[1], pr[2])] : pr \in Distinct2(NestSigs)}
NestBody  == {[k |-> "delay", f |-> IfTh(pr[1], pr[2])] : pr \in Distinct2(NestAlt)}
NestInner(ps) == {[k |-> "for", c |-> [id |-> 2], p |-> p, body |-> x] : p \in ps, x \in NestBody}
EffTerm == [k |-> "delay", f |-> [rl |-> 0, pre |-> <<[k |-> "eff", id |-> 1]>>, body |-> [k |-> "ret", e |-> [k |-> "sig", t |-> "normal"]]]]
\* full = FALSE: inner post present, outer without post (the quick tier); TRUE: every combination
NestedLoopTerms(full) ==
  LET inner == NestInner(IF full THEN Ps ELSE {[id |-> 3]})
      bodies == inner \cup {[k |-> "comb", a |-> EffTerm, b |-> i] : i \in inner}
                      \cup (IF full THEN {[k |-> "brk", body |-> i] : i \in inner} ELSE {}) IN
  {t \in {[k |-> "for", c |-> [id |-> 2], p |-> p, body |-> b] : p \in (IF full THEN Ps ELSE {None}), b \in bodies} : WF(t)}

TermsUpTo(n, withRecv) ==
  LET tab == BuildTerms(<<>>, n, withRecv) IN {t \in UNION {tab[i] : i \in 1..n} : WF(t)}
=============================================================================
