SPECIFICATION SpecRnd
CHECK_DEADLOCK FALSE
INVARIANT NoSpin
INVARIANT LazyStart
CONSTRAINT Emit
CONSTANTS
 Family = "ctl"
 MaxSize = 1
 TapeLen = 1
 MaxCalls = 8
 Budget = 60
 OpenFlags = {}
 Lazy = FALSE
 TapeRep = 0
 PrefixLen = 0
