------------------------------ MODULE Trace_Seq ------------------------------
(* Trace validation of the runtime's INTERNAL event stream against the control
   skeleton of SeqMachine.tla (code -> spec): the repository's own tests and
   example programs (linq, tree, lexer, the samples) are run with the verif
   tracer on; every event must be a step the CPS machine can take.  The terms
   these programs build are not modelled -- they are inferred: the trace spec
   keeps, per coroutine, the continuation as a stack of frames exactly like
   SeqMachine's `k`, pushed by the events comb / for / forpost and consumed by
   the continuation events kcomb / kfor / kforpost under SeqMachine's CallK rules:
     - Bind stores the step and returns WITHOUT calling the continuation: the
       only event that may follow `bind` is `ret 1`; the stack is the suspended
       continuation and is restored by the next `adv`;
     - a signal t travels down the stack: a comb frame lets only `normal` pass to
       its second half and propagates everything else unchanged; a for frame
       turns normal/continue into another iteration (the frame stays), break into
       normal (frame popped), propagates return; a forpost frame runs the post on
       normal and continue;
     - the condition is evaluated only at the head of the innermost running loop;
     - an advance reports "no step" only after the whole continuation unwound.
   Events: {"e": adv|ret|bind|comb|kcomb|for|cond|kfor|forpost|kforpost|brk|kbrk|sig, "c": coroutine, "t": argument}
   with t = 0 normal, 1 break, 2 continue, 3 return for signals, 0/1 for cond and ret. *)
EXTENDS Integers, Sequences, TLC, Json, IOUtils

Trace == ndJsonDeserialize(IOEnv.VERIF_TRACE)

VARIABLES l, st
vars == <<l, st>>
\* st: coroutine -> [stack, saved, mode, t]; mode: idle | run | bound | unw (a signal t is travelling) | done
Fresh == [stack |-> <<>>, saved |-> <<>>, mode |-> "idle", t |-> 0]
Get(c) == IF c \in DOMAIN st THEN st[c] ELSE Fresh
Put(c, r) == IF c \in DOMAIN st THEN [st EXCEPT ![c] = r] ELSE [x \in DOMAIN st \cup {c} |-> IF x = c THEN r ELSE st[x]]
Top(s) == s.stack[Len(s.stack)]
Pop(s) == SubSeq(s.stack, 1, Len(s.stack) - 1)

Init == l = 1 /\ st = [x \in {} |-> Fresh]

Reject == [stack |-> <<>>, saved |-> <<>>, mode |-> "reject", t |-> 0]
Step(s, e) ==   \* the successor state of coroutine state s under event e, or Reject
  CASE e.e = "adv"  -> IF s.mode = "idle" THEN [s EXCEPT !.mode = "run", !.stack = s.saved] ELSE Reject
    [] e.e = "comb" -> IF s.mode = "run" THEN [s EXCEPT !.stack = Append(@, "comb")] ELSE Reject
    [] e.e = "for"  -> IF s.mode = "run" THEN [s EXCEPT !.stack = Append(@, "for")] ELSE Reject
    [] e.e = "brk"  -> IF s.mode = "run" THEN [s EXCEPT !.stack = Append(@, "brk")] ELSE Reject
    [] e.e = "forpost" -> IF s.mode = "run" /\ s.stack # <<>> /\ Top(s) = "for" THEN [s EXCEPT !.stack = Append(@, "fp")] ELSE Reject
    [] e.e = "cond" -> IF s.mode = "run" /\ s.stack # <<>> /\ Top(s) = "for"
                       THEN (IF e.t = 1 THEN s ELSE [s EXCEPT !.stack = Pop(s), !.mode = "unw", !.t = 0])   \* false: k(normal)
                       ELSE Reject
    [] e.e = "bind" -> IF s.mode = "run" THEN [s EXCEPT !.mode = "bound", !.saved = s.stack] ELSE Reject
    [] e.e = "sig"  -> IF s.mode = "run" THEN [s EXCEPT !.mode = "unw", !.t = e.t] ELSE Reject
    [] e.e = "kcomb" -> IF s.mode = "unw" /\ s.t = e.t /\ s.stack # <<>> /\ Top(s) = "comb"
                        THEN (IF e.t = 0 THEN [s EXCEPT !.stack = Pop(s), !.mode = "run"] ELSE [s EXCEPT !.stack = Pop(s)])
                        ELSE Reject
    \* Breakable's continuation: break => k(normal), every other signal travels on unchanged
    [] e.e = "kbrk" -> IF s.mode = "unw" /\ s.t = e.t /\ s.stack # <<>> /\ Top(s) = "brk"
                       THEN (IF e.t = 1 THEN [s EXCEPT !.stack = Pop(s), !.t = 0] ELSE [s EXCEPT !.stack = Pop(s)])
                       ELSE Reject
    [] e.e = "kfor" -> IF s.mode = "unw" /\ s.t = e.t /\ s.stack # <<>> /\ Top(s) = "for"
                       THEN (CASE e.t \in {0, 2} -> [s EXCEPT !.mode = "run"]                               \* next iteration, frame stays
                               [] e.t = 1 -> [s EXCEPT !.stack = Pop(s), !.t = 0]                           \* break => k(normal)
                               [] e.t = 3 -> [s EXCEPT !.stack = Pop(s)])                                   \* return propagates
                       ELSE Reject
    [] e.e = "kforpost" -> IF s.mode = "unw" /\ s.t = e.t /\ s.stack # <<>> /\ Top(s) = "fp"
                           THEN (IF e.t \in {0, 2} THEN [s EXCEPT !.stack = Pop(s), !.mode = "run"] ELSE [s EXCEPT !.stack = Pop(s)])
                           ELSE Reject
    [] e.e = "ret"  -> IF e.t = 1 THEN (IF s.mode = "bound" THEN [s EXCEPT !.mode = "idle"] ELSE Reject)
                       ELSE (IF s.mode = "unw" /\ s.stack = <<>> THEN [s EXCEPT !.mode = "done", !.saved = <<>>] ELSE Reject)
    [] OTHER -> Reject

Next == /\ l <= Len(Trace)
        /\ LET e == Trace[l] r == Step(Get(e.c), e) IN
           /\ r.mode # "reject"
           /\ st' = Put(e.c, r)
        /\ l' = l + 1
Spec == Init /\ [][Next]_vars
\* a finished generator stays finished (SeqMachine: next = nil); stacks only hold known frames
Inv == \A c \in DOMAIN st : \A i \in 1..Len(st[c].stack) : st[c].stack[i] \in {"comb", "for", "fp", "brk"}
TraceAccepted == TLCGet("stats").diameter - 1 = Len(Trace)
=============================================================================
