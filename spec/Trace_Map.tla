------------------------------ MODULE Trace_Map ------------------------------
(* Go's range over a map with mutation during the loop, as TRACE VALIDATION:
   the iteration order is not specified, so equality with one expected trace
   would be the wrong check.  The harness records, for every scenario, the
   events of a loop -- once for the native `range` statement (which validates
   this specification against Go) and once for seq.NewMapIter -- and this
   module accepts or rejects the file.  Many loops per file (reset idiom).
     {"op":"reset","keys":[..],"nilval":K}   a loop starts over a map with these keys
                                              (key 0 is the nil interface key, key 4 a NaN; the value of
                                              key k is 10*k, the value of key nilval is nil = -1)
     {"op":"visit","k":K,"v":V}              the loop body was entered with this pair
     {"op":"delete","k":K} {"op":"insert","k":K}   mutation made by the body
     {"op":"end"}                            the loop terminated
     {"op":"panic"}                          the loop panicked (never allowed)
   Go spec: an entry removed before it is reached is not produced; an entry
   created during iteration may or may not be produced; every other entry is
   produced exactly once. *)
EXTENDS Integers, Sequences, FiniteSets, TLC, Json, IOUtils

Trace == ndJsonDeserialize(IOEnv.VERIF_TRACE)
ToSet(sq) == {sq[i] : i \in 1..Len(sq)}

VARIABLES l, live, visited, must, active, nilval
vars == <<l, live, visited, must, active, nilval>>
\* live: keys currently in the map; visited: keys already produced (and not re-created since);
\* must: keys present at loop entry that were neither produced nor deleted; active: a loop is running
Init == l = 1 /\ live = {} /\ visited = {} /\ must = {} /\ active = FALSE /\ nilval = 0 - 2
Ev(e) == l <= Len(Trace) /\ Trace[l].op = e /\ l' = l + 1
ValueOf(k) == IF k = nilval THEN 0 - 1 ELSE 10 * k

Reset  == /\ Ev("reset") /\ ~active
          /\ live' = ToSet(Trace[l].keys) /\ visited' = {} /\ must' = ToSet(Trace[l].keys)
          /\ active' = TRUE /\ nilval' = Trace[l].nilval
Visit  == /\ Ev("visit") /\ active
          /\ Trace[l].k \in live /\ Trace[l].k \notin visited     \* present now, not produced before
          /\ Trace[l].v = ValueOf(Trace[l].k)                     \* the value stored under that key (nil stays nil)
          /\ visited' = visited \cup {Trace[l].k} /\ must' = must \ {Trace[l].k}
          /\ UNCHANGED <<live, active, nilval>>
Delete == /\ Ev("delete") /\ active
          /\ live' = live \ {Trace[l].k} /\ must' = must \ {Trace[l].k} /\ UNCHANGED <<visited, active, nilval>>
Insert == /\ Ev("insert") /\ active          \* a (re-)created entry may be produced (again) or skipped
          /\ live' = live \cup {Trace[l].k}
          /\ visited' = IF Trace[l].k \in live THEN visited ELSE visited \ {Trace[l].k}
          /\ UNCHANGED <<must, active, nilval>>
End    == /\ Ev("end") /\ active /\ must = {} /\ active' = FALSE /\ UNCHANGED <<live, visited, must, nilval>>
Next == Reset \/ Visit \/ Delete \/ Insert \/ End
Spec == Init /\ [][Next]_vars
\* every line of the trace was consumed (each step consumes exactly one line)
TraceAccepted == TLCGet("stats").diameter - 1 = Len(Trace)
=============================================================================
