SPECIFICATION Spec
CHECK_DEADLOCK FALSE
INVARIANT Functional
POSTCONDITION TraceAccepted
CONSTANTS
 AsBuiltRoot = FALSE
 AsBuiltDep = FALSE
 AsBuiltDepType = FALSE
