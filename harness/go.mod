module verif/harness

go 1.23
