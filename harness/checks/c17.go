package checks

import (
	"encoding/json"
	"fmt"
	"path/filepath"
	"strings"
	"time"

	rt "verif/harness/rtsrc"
	"verif/harness/vf"
)

const depthDriverSrc = `package main

import (
	"fmt"

	"scratch/progs"
	"scratch/rt"
)

type In struct {
	Idx     int    ` + "`json:\"idx\"`" + `
	Pattern []bool ` + "`json:\"pattern\"`" + `
	Repeat  int    ` + "`json:\"repeat\"`" + `
	All     bool   ` + "`json:\"all\"`" + `
}
type Out struct {
	Ok      bool     ` + "`json:\"ok\"`" + `
	Panic   string   ` + "`json:\"panic\"`" + `
	Events  int      ` + "`json:\"events\"`" + `
	Samples [][2]int ` + "`json:\"samples\"`" + `
}

func main() {
	serve(func(in In) (out Out) {
		// the event budget ends loops that do not depend on the tape (panic "budget", as in the spec)
		r := &rt.Rec{Pattern: in.Pattern, Repeat: in.Repeat, Quiet: true, Probe: true, Budget: in.Repeat*len(in.Pattern)*4 + 1000}
		rt.ProbeAll = in.All
		it := progs.All[in.Idx](r)
		defer func() {
			if p := recover(); p != nil {
				out.Panic = fmt.Sprint(p)
			}
			out.Events = r.Reads
			out.Samples = r.Samples
		}()
		out.Ok = it.MoveNext() // one advance: everything sampled lies between two yields
		return
	})
}
`

type depthJob struct {
	Idx     int    `json:"idx"`
	Pattern []bool `json:"pattern"`
	Repeat  int    `json:"repeat"`
	All     bool   `json:"all"`
}
type depthOut struct {
	Ok      bool     `json:"ok"`
	Panic   string   `json:"panic"`
	Events  int      `json:"events"`
	Samples [][2]int `json:"samples"`
}

// C17: stack use does not grow with the number of iterations between yields.
func C17(c *vf.Check) {
	reps := tier(c, 100000, 1000000)
	const growthLimit = 1000 // frames; any implementation satisfying the property stays far below, one frame per iteration is far above

	// (1) model: depth invariant of SeqMachine on all loop terms under periodic tapes
	var tcases []struct {
		Term any   `json:"term"`
		Tape any   `json:"tape"`
		Obs  []any `json:"obs"`
		Size int   `json:"size"`
	}
	res := c.S.RunTLC(vf.TLCRun{Module: "MC_Depth", Cfg: "MC_Depth.cfg", Consts: map[string]string{"MaxSize": tier(c, "3", "4")}, Timeout: 30 * time.Minute,
		OnCase: func(raw []byte) {
			var x struct {
				Term any   `json:"term"`
				Tape any   `json:"tape"`
				Obs  []any `json:"obs"`
				Size int   `json:"size"`
			}
			vf.Must(json.Unmarshal(raw, &x))
			tcases = append(tcases, x)
		}})
	res.MustComplete("MC_Depth")
	c.Note("TLC MC_Depth: %d states, %d (loop term, tape pattern) cases; invariant DepthBounded (maxd <= 6*size+6) holds on the model of the code at HEAD (%.0fs)", res.Distinct, res.Cases, res.Wall.Seconds())

	// (2) compiled generators: loop programs of F_ctl under periodic tapes
	consts := map[string]string{"Family": `"ctl"`, "MaxSize": "2", "TapeLen": "3", "MaxCalls": "1", "Budget": "200", "OpenFlags": "{}", "Lazy": "FALSE", "TapeRep": "12"}
	scases, sres := collectSrcCases(c, "MC_Src", "MC_Src.cfg", consts, 30*time.Minute)
	c.Note("TLC MC_Src(ctl, periodic tapes): %d cases", sres.Cases)
	// delegation depth: main = YieldFrom(D4(..)) from the delegation family
	yconsts := map[string]string{"Family": `"yf"`, "MaxSize": "1", "TapeLen": "1", "MaxCalls": "1", "Budget": "60", "OpenFlags": "{}", "Lazy": "FALSE", "TapeRep": "0"}
	ycases, _ := collectSrcCases(c, "MC_Src", "MC_Src.cfg", yconsts, 10*time.Minute)

	// render everything into one module
	dir := c.S.Sub("depth")
	c.S.WriteModule(dir, "scratch")
	writeFile(filepath.Join(dir, "rt", "rt.go"), rt.Source)
	writeFile(filepath.Join(dir, "common.go"), drvCommon)
	writeFile(filepath.Join(dir, "main.go"), depthDriverSrc)

	type pcase struct {
		what    string
		pattern []bool
		deleg   bool
	}
	var jobs []depthJob
	var meta []pcase
	var regs []string
	// terms whose first advance ran through the whole periodic tape without yielding in the model
	terms := newUniq()
	for _, tc := range tcases {
		if len(tc.Obs) == 0 {
			continue
		}
		first := obj(tc.Obs[0])
		pat := boolTape(tc.Tape)
		if num(first["reads"]) < 12 { // the advance ended early (yield / exit): no long non-yielding stretch
			continue
		}
		i := terms.add(tc.Term)
		jobs = append(jobs, depthJob{Idx: i, Pattern: pat, Repeat: reps})
		meta = append(meta, pcase{what: renderTerm(tc.Term), pattern: pat})
	}
	var tb strings.Builder
	tb.WriteString("package progs\n\nimport (\n\t\"github.com/goghcrow/go-co/seq\"\n\t\"scratch/rt\"\n)\n\ntype It interface {\n\tMoveNext() bool\n\tCurrent() int\n}\n\nvar All []func(*rt.Rec) It\n\n")
	for i, t := range terms.vals {
		fmt.Fprintf(&tb, "func T%d(r *rt.Rec) It {\n\tx := 0\n\t_ = x\n\treturn seq.Start[int](%s)\n}\n\n", i, renderTerm(t))
		regs = append(regs, fmt.Sprintf("T%d", i))
	}
	nterms := len(terms.vals)

	// compiled programs through the real compiler
	progs := newUniq()
	var sel []srcCase
	for _, sc := range scases {
		if len(sc.Ideal) == 0 || !usesKind(sc.Prog, "for") {
			continue
		}
		first := obj(sc.Ideal[0])
		if len(arr(first["effs"])) < 12 {
			continue
		}
		sel = append(sel, sc)
	}
	var d4 []any
	for _, sc := range ycases {
		if len(sc.Prog) == 1 && obj(sc.Prog[0])["k"] == "yfrom" && num(obj(sc.Prog[0])["g"]) == 4 && obj(obj(sc.Prog[0])["arg"])["k"] == "var" {
			d4 = sc.Prog
		}
	}
	if d4 == nil {
		vf.Machinery("delegation program YieldFrom(D4(r, a, b)) not found in the yf family")
	}
	cogen := buildCogen(c)
	coR := &srcRenderer{md: coMode}
	var src strings.Builder
	src.WriteString("//go:build co\n\npackage progs\n\nimport (\n\t. \"github.com/goghcrow/go-co\"\n\t\"scratch/rt\"\n)\n\nvar _ = rt.Y\n\n")
	src.WriteString(delegCo)
	for _, sc := range sel {
		i := progs.add(sc.Prog)
		jobs = append(jobs, depthJob{Idx: nterms + i, Pattern: boolTape(sc.Tape)[:patLen(sc.Tape)], Repeat: reps})
		meta = append(meta, pcase{what: strings.ReplaceAll(renderCo(sc.Prog), "\n", " "), pattern: boolTape(sc.Tape)[:patLen(sc.Tape)]})
	}
	di := progs.add(d4)
	for i, p := range progs.vals {
		src.WriteString(coR.genFunc(fmt.Sprintf("G%d", i), arr(p), "needed"))
		src.WriteString("\n")
		regs = append(regs, fmt.Sprintf("func(r *rt.Rec) It { return G%d(r, 0, 2) }", i))
	}
	depthLevels := tier(c, 50, 200)
	jobs = append(jobs, depthJob{Idx: nterms + di, Pattern: []bool{true}, Repeat: depthLevels, All: true})
	meta = append(meta, pcase{what: "recursive delegation YieldFrom(D4(..)) nested " + itoa(depthLevels) + " deep", deleg: true})
	writeFile(filepath.Join(dir, "progs", "gens_co.go"), src.String())
	tb.WriteString("func init() {\n\tAll = []func(*rt.Rec) It{\n")
	for _, r := range regs {
		tb.WriteString("\t\t" + r + ",\n")
	}
	tb.WriteString("\t}\n}\n")
	writeFile(filepath.Join(dir, "progs", "terms.go"), tb.String())
	if out, err := c.S.Run(dir, nil, "go", "build", "-tags", "co", "./progs/"); err != nil {
		vf.Machinery("rendered sources do not build under -tags co:\n%s", vf.Trunc(out, 2000))
	}
	if out, err := c.S.Run(dir, nil, cogen, "gogen", filepath.Join(dir, "progs")); err != nil {
		vf.Machinery("the compiler failed on the C17 loop programs (C11's business, fix first):\n%s", vf.Trunc(out, 2000))
	}
	if out, err := c.S.Run(dir, nil, "go", "build", "-o", "driver", "."); err != nil {
		vf.Machinery("building the depth driver failed:\n%s", vf.Trunc(out, 3000))
	}
	results := runDriver(c, dir, "./driver", []string{"VERIF_JOB_TIMEOUT_MS=120000"}, jobs, len(jobs))
	nontrivial := 0
	for i, r := range results {
		m := meta[i]
		if r.Status != "ok" {
			c.Violation(J{"case": m.what, "pattern": m.pattern, "repeat": jobs[i].Repeat, "status": r.Status, "detail": r.Crash},
				fmt.Sprintf("%s with tape pattern %v x %d: the advance did not finish (%s) %s", m.what, m.pattern, jobs[i].Repeat, r.Status, vf.Trunc(firstLine(r.Crash), 200)))
			continue
		}
		var o depthOut
		vf.Must(json.Unmarshal(r.Out, &o))
		if m.deleg {
			// depth must grow at most linearly with the delegation depth: constant increments
			if len(o.Samples) < depthLevels {
				vf.Machinery("delegation run produced %d samples, expected >= %d", len(o.Samples), depthLevels)
			}
			inc0 := o.Samples[2][1] - o.Samples[1][1]
			worst := 0
			for k := 2; k < len(o.Samples); k++ {
				if d := o.Samples[k][1] - o.Samples[k-1][1]; d > worst {
					worst = d
				}
			}
			c.Note("delegation: depth per nesting level %d frames (max increment %d) over %d levels", inc0, worst, len(o.Samples))
			if worst > inc0+8 || inc0 > 64 {
				c.Violation(J{"case": m.what, "samples": o.Samples}, fmt.Sprintf("%s: call depth is not linear in the delegation depth: first increment %d, worst %d", m.what, inc0, worst))
			}
			nontrivial++
			continue
		}
		if len(o.Samples) < 3 {
			continue // fewer than 100 events in the advance: not a long stretch
		}
		nontrivial++
		base := o.Samples[0][1] // at event 10
		last := o.Samples[len(o.Samples)-1]
		if last[1]-base > growthLimit {
			c.Violation(J{"case": m.what, "pattern": m.pattern, "repeat": jobs[i].Repeat, "samples": o.Samples},
				fmt.Sprintf("%s\n  tape pattern %v x %d: call depth grows with the number of non-yielding iterations: %v (event number, frames)", m.what, m.pattern, jobs[i].Repeat, o.Samples))
		} else if nontrivial%40 == 1 {
			c.Sample(J{"case": m.what, "pattern": m.pattern, "repeat": jobs[i].Repeat, "depth_samples": o.Samples})
		}
	}
	c.Cov["states"] = res.Distinct + sres.Distinct
	c.Cov["transitions"] = res.Generated + sres.Generated
	c.Cov["traces_validated_against_impl"] = int64(len(jobs))
	c.Cov["evaluations"] = int64(len(jobs))
	c.Cov["distinct_nontrivial"] = int64(nontrivial)
	c.Cov["programs"] = int64(nterms + len(progs.vals))
	c.Cov["rule"] = fmt.Sprintf("every loop term of T_term (size<=MaxSize) and every loop program of F_ctl (size<=2) x every tape pattern of <=3 bits for which the model's first advance runs through 12 repetitions without yielding; replayed on the real runtime / compiled code with the pattern repeated %d times, call depth (runtime.Callers) sampled at recorder events 10,100,1000,..; growth beyond event 10 must stay below %d frames; plus recursive delegation %d levels deep with constant depth increment per level; non-trivial = advance with >= 100 events", reps, growthLimit, depthLevels)
	c.Assumptions = append(c.Assumptions, "real stack frames are measured by the harness (runtime.Callers), TLA+ only states the abstract bound (depth of CPS activations) and selects the cases",
		"threshold 1000 frames: generous so that any implementation satisfying the property passes; growth of one frame per iteration is caught at 10^5 iterations")
}

func patLen(tape any) int {
	// periodic tapes are emitted as pattern^12
	return len(arr(tape)) / 12
}

func firstLine(s string) string {
	for _, l := range strings.Split(s, "\n") {
		if strings.Contains(l, "fatal error") || strings.Contains(l, "panic") {
			return l
		}
	}
	return strings.SplitN(s, "\n", 2)[0]
}
