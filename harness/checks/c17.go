package checks

import (
	"encoding/json"
	"fmt"
	"path/filepath"
	"strings"
	"time"

	rt "verif/harness/rtsrc"
	"verif/harness/vf"
)

const depthDriverSrc = `package main

import (
	"fmt"

	"scratch/rt"
	"scratch/terms"
//IMPORTS
)

type It interface {
	MoveNext() bool
	Current() int
}
type In struct {
	Idx     int    ` + "`json:\"idx\"`" + `
	Prefix  []bool ` + "`json:\"prefix\"`" + `
	Pattern []bool ` + "`json:\"pattern\"`" + `
	Repeat  int    ` + "`json:\"repeat\"`" + `
	Calls   int    ` + "`json:\"calls\"`" + `
	All     bool   ` + "`json:\"all\"`" + `
}
type Out struct {
	Panic   string   ` + "`json:\"panic\"`" + `
	Samples [][3]int ` + "`json:\"samples\"`" + `
}

var all = map[int]func(*rt.Rec) It{}

func main() {
	for i, t := range terms.All {
		t := t
		all[i] = func(r *rt.Rec) It { return t(r) }
	}
//REGISTER
	serve(func(in In) (out Out) {
		// the event budget ends loops that do not depend on the tape (panic "budget", as in the spec)
		r := &rt.Rec{Tape: append([]bool{}, in.Prefix...), Pattern: in.Pattern, Repeat: in.Repeat, Quiet: true, Probe: true,
			Budget: in.Repeat*len(in.Pattern)*4 + 1000}
		rt.ProbeAll = in.All
		it := all[in.Idx](r)
		defer func() {
			if p := recover(); p != nil {
				out.Panic = fmt.Sprint(p)
			}
			out.Samples = r.Samples
		}()
		for c := 0; c < in.Calls; c++ {
			r.ResetProbe() // everything sampled with the same advance number lies between two yields
			if !it.MoveNext() {
				break
			}
		}
		return
	})
}
`

type depthJob struct {
	Idx     int    `json:"idx"`
	Prefix  []bool `json:"prefix"`
	Pattern []bool `json:"pattern"`
	Repeat  int    `json:"repeat"`
	Calls   int    `json:"calls"`
	All     bool   `json:"all"`
}
type depthOut struct {
	Panic   string   `json:"panic"`
	Samples [][3]int `json:"samples"`
}

// longStretch reports whether some advance of the model run performed at least 12
// recorder events (a full pass over the 12 repetitions) -- i.e. a long stretch without yield.
func longStretch(obs []any, key string) bool {
	for _, o := range obs {
		m := obj(o)
		n := 0
		if key == "reads" {
			n = num(m["reads"])
		} else {
			n = len(arr(m["effs"]))
		}
		if n >= 12 {
			return true
		}
	}
	return false
}

// C17: stack use does not grow with the number of iterations between yields.
func C17(c *vf.Check) {
	reps := tier(c, 20000, 200000)
	const growthLimit = 1000 // frames; any implementation satisfying the property stays far below, one frame per iteration is far above
	calls := 3

	// (1) model: depth invariant of SeqMachine on all loop terms under (prefix, pattern) tapes
	type tcase struct {
		Term any   `json:"term"`
		Pre  any   `json:"pre"`
		Tape any   `json:"tape"`
		Obs  []any `json:"obs"`
	}
	var tcases []tcase
	res := c.S.RunTLC(vf.TLCRun{Module: "MC_Depth", Cfg: "MC_Depth.cfg", Consts: map[string]string{"MaxSize": "3"}, Timeout: 60 * time.Minute,
		OnCase: func(raw []byte) {
			var x tcase
			vf.Must(json.Unmarshal(raw, &x))
			tcases = append(tcases, x)
		}})
	res.MustComplete("MC_Depth")
	c.Note("TLC MC_Depth: %d states, %d (loop term, prefix, pattern) cases; invariant DepthBounded (maxd <= 6*size+6) holds on the model of the code at HEAD (%.0fs)", res.Distinct, res.Cases, res.Wall.Seconds())

	// (2) compiled generators: loop programs under (prefix, pattern) tapes: control-flow family
	// and delegation family (for-post YieldFrom of possibly empty delegates)
	var scases []srcCase
	var sstates, strans int64
	for _, fam := range []string{"ctl", "yfl"} {
		consts := map[string]string{"Family": `"` + fam + `"`, "MaxSize": "2", "TapeLen": "3", "MaxCalls": itoa(calls), "Budget": "200", "OpenFlags": "{}", "Lazy": "FALSE", "TapeRep": "12", "PrefixLen": "2"}
		cs, sres := collectSrcCases(c, "MC_Src", "MC_Src.cfg", consts, 30*time.Minute)
		scases = append(scases, cs...)
		sstates += sres.Distinct
		strans += sres.Generated
		c.Note("TLC MC_Src(%s, prefix+periodic tapes): %d cases", fam, sres.Cases)
	}
	// delegation depth: main = YieldFrom(D4(..))
	yconsts := map[string]string{"Family": `"yf"`, "MaxSize": "1", "TapeLen": "1", "MaxCalls": "1", "Budget": "60", "OpenFlags": "{}", "Lazy": "FALSE"}
	ycases, _ := collectSrcCases(c, "MC_Src", "MC_Src.cfg", yconsts, 10*time.Minute)

	dir := c.S.Sub("depth")
	c.S.WriteModule(dir, "scratch")
	writeFile(filepath.Join(dir, "rt", "rt.go"), rt.Source)
	writeFile(filepath.Join(dir, "common.go"), drvCommon)

	type pcase struct {
		what    string
		prefix  []bool
		pattern []bool
		deleg   bool
	}
	var jobs []depthJob
	var meta []pcase
	terms := newUniq()
	for _, tc := range tcases {
		if !longStretch(tc.Obs, "reads") {
			continue
		}
		i := terms.add(tc.Term)
		jobs = append(jobs, depthJob{Idx: i, Prefix: boolTape(tc.Pre), Pattern: boolTape(tc.Tape), Repeat: reps, Calls: calls})
		meta = append(meta, pcase{what: renderTerm(tc.Term), prefix: boolTape(tc.Pre), pattern: boolTape(tc.Tape)})
	}
	var tb strings.Builder
	tb.WriteString("package terms\n\nimport (\n\t\"github.com/goghcrow/go-co/seq\"\n\t\"scratch/rt\"\n)\n\ntype It interface {\n\tMoveNext() bool\n\tCurrent() int\n}\n\nvar All = []func(*rt.Rec) It{\n")
	for i := range terms.vals {
		fmt.Fprintf(&tb, "\tT%d,\n", i)
	}
	tb.WriteString("}\n\nvar _ = seq.Normal[int]\n\n")
	for i, t := range terms.vals {
		fmt.Fprintf(&tb, "func T%d(r *rt.Rec) It {\n\tx := 0\n\t_ = x\n\treturn seq.Start[int](%s)\n}\n\n", i, renderTerm(t))
	}
	writeFile(filepath.Join(dir, "terms", "terms.go"), tb.String())
	nterms := len(terms.vals)

	progs := newUniq()
	for _, sc := range scases {
		if !usesKind(sc.Prog, "for") || !longStretch(sc.Ideal, "effs") {
			continue
		}
		tape := boolTape(sc.Tape)
		plen := sc.PLen
		per := (len(tape) - plen) / 12
		i := progs.add(sc.Prog)
		jobs = append(jobs, depthJob{Idx: nterms + i, Prefix: tape[:plen], Pattern: tape[plen : plen+per], Repeat: reps, Calls: calls})
		meta = append(meta, pcase{what: strings.ReplaceAll(renderCo(sc.Prog), "\n", " "), prefix: tape[:plen], pattern: tape[plen : plen+per]})
	}
	var d4 []any
	for _, sc := range ycases {
		if len(sc.Prog) == 1 && obj(sc.Prog[0])["k"] == "yfrom" && num(obj(sc.Prog[0])["g"]) == 4 && obj(obj(sc.Prog[0])["arg"])["k"] == "var" {
			d4 = sc.Prog
		}
	}
	if d4 == nil {
		vf.Machinery("delegation program YieldFrom(D4(r, a, b)) not found in the yf family")
	}
	di := progs.add(d4)
	depthLevels := tier(c, 50, 200)
	jobs = append(jobs, depthJob{Idx: nterms + di, Pattern: []bool{true}, Repeat: depthLevels, Calls: 1, All: true})
	meta = append(meta, pcase{what: "recursive delegation YieldFrom(D4(..)) nested " + itoa(depthLevels) + " deep", deleg: true})

	coR := &srcRenderer{md: coMode}
	hdr := func(pkg string) string {
		return "//go:build co\n\npackage " + pkg + "\n\nimport (\n\t. \"github.com/goghcrow/go-co\"\n\t\"scratch/rt\"\n)\n\nvar _ = rt.Y\nvar _ Iter[int]\n\n"
	}
	status, npk, runs := compileUnits(c, dir, unitSpec{N: len(progs.vals), PerPkg: 50, Hdr: hdr,
		File: func(i int) string { return coR.genFunc(fmt.Sprintf("G%d", i), arr(progs.vals[i]), "needed") },
		All: func(pkg string, live []int) string {
			var b strings.Builder
			b.WriteString("var All = map[int]func(*rt.Rec, int, int) Iter[int]{\n")
			for _, i := range live {
				fmt.Fprintf(&b, "\t%d: G%d,\n", i, i)
			}
			b.WriteString("}\n" + delegCo)
			return b.String()
		}})
	for i, st := range status {
		if st != "" {
			c.Note("not measured (the compiler fails on it; C11's business): %s: %s", st, strings.ReplaceAll(renderCo(arr(progs.vals[i])), "\n", " "))
		}
	}
	var imp, reg strings.Builder
	for pk := 0; pk < npk; pk++ {
		fmt.Fprintf(&imp, "\tgen%03d \"scratch/gen%03d\"\n", pk, pk)
		fmt.Fprintf(&reg, "\tfor k, v := range gen%03d.All {\n\t\tv := v\n\t\tall[%d+k] = func(r *rt.Rec) It { return v(r, 0, 2) }\n\t}\n", pk, nterms)
	}
	writeFile(filepath.Join(dir, "main.go"), strings.Replace(strings.Replace(depthDriverSrc, "//IMPORTS\n", imp.String(), 1), "//REGISTER\n", reg.String(), 1))
	if out, err := c.S.Run(dir, nil, "go", "build", "-o", "driver", "."); err != nil {
		vf.Machinery("building the depth driver failed:\n%s", vf.Trunc(out, 3000))
	}
	results := runDriver(c, dir, "./driver", []string{"VERIF_JOB_TIMEOUT_MS=120000"}, jobs, len(jobs))
	nontrivial := 0
	for i, r := range results {
		m := meta[i]
		if jobs[i].Idx >= nterms && status[jobs[i].Idx-nterms] != "" {
			continue
		}
		if r.Status == "notrun" {
			continue
		}
		if r.Status != "ok" {
			c.Violation(J{"case": m.what, "prefix": m.prefix, "pattern": m.pattern, "repeat": jobs[i].Repeat, "status": r.Status, "detail": r.Crash},
				fmt.Sprintf("%s with tape %v + %v x %d: the advance did not finish (%s) %s", m.what, m.prefix, m.pattern, jobs[i].Repeat, r.Status, vf.Trunc(firstLine(r.Crash), 200)))
			continue
		}
		var o depthOut
		vf.Must(json.Unmarshal(r.Out, &o))
		if m.deleg {
			// depth must grow at most linearly with the delegation depth: constant increments
			if len(o.Samples) < depthLevels {
				vf.Machinery("delegation run produced %d samples, expected >= %d", len(o.Samples), depthLevels)
			}
			inc0 := o.Samples[2][2] - o.Samples[1][2]
			worst := 0
			for k := 2; k < len(o.Samples); k++ {
				if d := o.Samples[k][2] - o.Samples[k-1][2]; d > worst {
					worst = d
				}
			}
			c.Note("delegation: depth per nesting level %d frames (max increment %d) over %d levels", inc0, worst, len(o.Samples))
			if worst > inc0+8 || inc0 > 64 {
				c.Violation(J{"case": m.what, "samples": o.Samples}, fmt.Sprintf("%s: call depth is not linear in the delegation depth: first increment %d, worst %d", m.what, inc0, worst))
			}
			nontrivial++
			continue
		}
		// per advance: growth between the first sample (event 10) and the last one
		byAdv := map[int][][3]int{}
		for _, s := range o.Samples {
			byAdv[s[0]] = append(byAdv[s[0]], s)
		}
		long := false
		for adv, ss := range byAdv {
			if len(ss) < 3 { // fewer than 1000 events in this advance: not a long stretch
				continue
			}
			long = true
			if ss[len(ss)-1][2]-ss[0][2] > growthLimit {
				c.Violation(J{"case": m.what, "prefix": m.prefix, "pattern": m.pattern, "repeat": jobs[i].Repeat, "advance": adv, "samples": ss},
					fmt.Sprintf("%s\n  tape %v + %v x %d, advance %d: call depth grows with the number of non-yielding iterations: %v (advance, event number, frames)", m.what, m.prefix, m.pattern, jobs[i].Repeat, adv, ss))
				break
			}
		}
		if long {
			nontrivial++
			if nontrivial%97 == 1 {
				c.Sample(J{"case": m.what, "prefix": m.prefix, "pattern": m.pattern, "repeat": jobs[i].Repeat, "depth_samples": o.Samples})
			}
		}
	}
	c.Cov["states"] = res.Distinct + sstates
	c.Cov["transitions"] = res.Generated + strans
	c.Cov["traces_validated_against_impl"] = int64(len(jobs))
	c.Cov["evaluations"] = int64(len(jobs))
	c.Cov["distinct_nontrivial"] = int64(nontrivial)
	c.Cov["programs"] = int64(nterms + len(progs.vals))
	c.Cov["compiler_runs"] = int64(runs)
	c.Cov["rule"] = fmt.Sprintf("every loop term of T_term (size<=MaxSize) and every loop program of F_ctl and F_yfl (size<=2, incl. for-post YieldFrom of possibly empty, non-recursive delegates) x every (prefix<=2 bits, pattern<=3 bits) tape for which some advance of the model run passes 12 repetitions without yielding; replayed on the real runtime / compiled code with the pattern repeated %d times over 3 advances, call depth (runtime.Callers) sampled at recorder events 10,100,1000,.. of EVERY advance; growth within an advance must stay below %d frames; plus recursive delegation %d levels deep with constant depth increment per level; non-trivial = run with an advance of >= 1000 events", reps, growthLimit, depthLevels)
	c.Assumptions = append(c.Assumptions, "real stack frames are measured by the harness (runtime.Callers), TLA+ only states the abstract bound (depth of CPS activations) and selects the cases",
		"threshold 1000 frames: generous so that any implementation satisfying the property passes; growth of one frame per iteration is caught after 2*10^4 iterations (quick) already")
}

func firstLine(s string) string {
	for _, l := range strings.Split(s, "\n") {
		if strings.Contains(l, "fatal error") || strings.Contains(l, "panic") {
			return l
		}
	}
	return strings.SplitN(s, "\n", 2)[0]
}
