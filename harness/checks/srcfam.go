package checks

import (
	"encoding/json"
	"fmt"
	"os"
	"path/filepath"
	"regexp"
	"sort"
	"strings"
	"sync"
	"time"

	rt "verif/harness/rtsrc"
	"verif/harness/vf"
)

// srcCase is one line emitted by MC_Src.tla (and its siblings).
type srcCase struct {
	Fam     string `json:"fam"`
	Prog    []any  `json:"prog"`
	Tape    any    `json:"tape"`
	PLen    int    `json:"plen"`
	RetA    int    `json:"reta"`
	Ideal   []any  `json:"ideal"`
	Same    bool   `json:"same"`
	AsBuilt []any  `json:"asbuilt"`
}

func collectSrcCases(c *vf.Check, module, cfg string, consts map[string]string, timeout time.Duration) ([]srcCase, *vf.TLCResult) {
	var cases []srcCase
	res := c.S.RunTLC(vf.TLCRun{Module: module, Cfg: cfg, Consts: consts, Timeout: timeout,
		OnCase: func(raw []byte) {
			var sc srcCase
			if err := json.Unmarshal(raw, &sc); err != nil {
				vf.Machinery("bad case line from TLC: %v: %s", err, vf.Trunc(string(raw), 300))
			}
			if sc.Prog == nil {
				sc.Prog = []any{}
			}
			cases = append(cases, sc)
		}})
	res.MustComplete(module)
	return cases, res
}

// flagSet renders the open flags as a TLA+ set for the cfg.
func flagSet(c *vf.Check, candidates ...string) string {
	var xs []string
	for _, f := range candidates {
		if fi := c.KF.Get(f); fi != nil && fi.Status == "open" {
			xs = append(xs, `"`+f+`"`)
		}
	}
	return "{" + strings.Join(xs, ", ") + "}"
}

// ---------------------------------------------------------------- the real compiler as a tool

const cogenSrc = `package main

import (
	"fmt"
	"os"

	"github.com/goghcrow/go-co/rewriter"
)

// cogen-verif: the real compiler (rewriter.GoGen / rewriter.Compile from /repo's
// working tree) as an ordinary binary -- not a *.test binary, under which the
// rewriter switches off gensym and source comments and keeps the tmp directory.
func main() {
	defer func() {
		if r := recover(); r != nil {
			fmt.Fprintf(os.Stderr, "COMPILER-PANIC: %v\n", r)
			os.Exit(3)
		}
	}()
	switch os.Args[1] {
	case "gogen":
		rewriter.GoGen(os.Args[2])
	case "compile":
		rewriter.Compile(os.Args[2], os.Args[3])
	default:
		panic("usage")
	}
}
`

// buildCogen builds the compiler driver from /repo's working tree with -tags verif.
func buildCogen(c *vf.Check) string {
	dir := c.S.Sub("cogen")
	c.S.WriteModule(dir, "cogenverif")
	writeFile(filepath.Join(dir, "main.go"), cogenSrc)
	if out, err := c.S.Run(dir, nil, "go", "build", "-tags", "verif", "-o", "cogen", "."); err != nil {
		vf.Machinery("building the compiler from /repo failed (the tree must build): %s", vf.Trunc(out, 3000))
	}
	return filepath.Join(dir, "cogen")
}

// ---------------------------------------------------------------- family run

type srcOpts struct {
	Budget      int
	Deleg       bool   // link the delegate generators D2..D4
	Import      string // "dot" (default) | "named" | "renamed"
	Trailing    string // "needed" (default) | "always"
	Form        string // declaration form of the generators: "" | method | generic | lit | nestedlit
	Stage       bool   // keep the unoptimised stage (C07)
	Opt         bool   // declare the helpers of the eta-shape closures in every package
	By          bool   // programs are bystanders: plain functions next to a generator (C13)
	CompileOnly bool   // stop after compiling and building the generated packages (C11)
	Box         bool   // generators of element type *rt.Box (fresh objects), adapted to the int protocol by rt.BoxIt
	GG          bool   // generators of generators (element type Iter[int]); All wraps each in the flattening consumer rt.GGIt
	ElemExtras  bool   // all_co.go also declares generators of other element types (slice, map, func, any, error, pointer, Iter[int], type parameter)
	BoxMap      bool   // with Box: element type rt.BoxM (map literal with a computed key), adapter rt.BoxMIt
	BoxVal      bool   // with Box: element type rt.BoxV (struct value, composite literal operands), adapter rt.BoxVIt
	PerPkg      int    // programs per package (crash isolation granularity)
	Race        bool
}

type srcJob struct {
	Idx    int    `json:"idx"`
	Tape   []bool `json:"tape"`
	Calls  int    `json:"calls"`
	Budget int    `json:"budget"`
}

type srcOut struct {
	Status  string
	Crash   string
	Real    []any `json:"real"`
	Nat     []any `json:"nat"`
	Tmp     []any `json:"tmp"`
	RealNew int   `json:"realnew"`
	NatNew  int   `json:"natnew"`
	RealAft int   `json:"realaft"`
	HasReal bool  `json:"hasreal"`
	HasTmp  bool  `json:"hastmp"`
}

type srcRun struct {
	Progs        []any
	ProgOf       []int    // case -> program index
	Status       []string // per program: "" | "panic: .." | "build: .."
	Outs         []srcOut // per case
	CompilerRuns int
	Packages     int
}

const srcDriverSrc = `package main

import (
	"fmt"
	"runtime"

	"scratch/nat"
	"scratch/rt"
//IMPORTS
)

type It interface {
	MoveNext() bool
	Current() int
}
var _ = fmt.Sprint

type In struct {
	Idx    int    ` + "`json:\"idx\"`" + `
	Tape   []bool ` + "`json:\"tape\"`" + `
	Calls  int    ` + "`json:\"calls\"`" + `
	Budget int    ` + "`json:\"budget\"`" + `
}
type Ev struct {
	Op    string  ` + "`json:\"op\"`" + `
	Ok    bool    ` + "`json:\"ok\"`" + `
	Cur   int     ` + "`json:\"cur\"`" + `
	Panic string  ` + "`json:\"panic\"`" + `
	Effs  [][]any ` + "`json:\"effs\"`" + `
}
type Out struct {
	Real    []Ev ` + "`json:\"real\"`" + `
	Nat     []Ev ` + "`json:\"nat\"`" + `
	Tmp     []Ev ` + "`json:\"tmp\"`" + `
	RealNew int  ` + "`json:\"realnew\"`" + `
	NatNew  int  ` + "`json:\"natnew\"`" + `
	RealAft int  ` + "`json:\"realaft\"`" + `
	HasReal bool ` + "`json:\"hasreal\"`" + `
	HasTmp  bool ` + "`json:\"hastmp\"`" + `
}

type mk = func(*rt.Rec, int, int) It

// byIt runs a bystander (a plain function of a processed file) as a one-shot "iterator":
// the only advance runs the function, logs its result and the package-level extras, and reports false.
type byIt struct {
	f       func(*rt.Rec, int, int) int
	r       *rt.Rec
	a, b    int
	extras  func() []int
}

func (x *byIt) MoveNext() bool {
	if x.f != nil {
		f := x.f
		x.f = nil
		res := f(x.r, x.a, x.b)
		x.r.Log = append(x.r.Log, append([]any{"ret", res}, toAny(x.extras())...))
	}
	return false
}
func (x *byIt) Current() int { return 0 }
func toAny(xs []int) []any {
	out := make([]any, len(xs))
	for i, v := range xs {
		out[i] = v
	}
	return out
}

var genAll = map[int]mk{}
var tmpAll = map[int]mk{}

func step(it It, r *rt.Rec) (ev Ev) {
	n := len(r.Log)
	ev.Op = "next"
	defer func() {
		if p := recover(); p != nil {
			ev.Panic = rt.PanicStr(p)
		}
		ev.Effs = append([][]any{}, r.Log[n:]...)
		ev.Cur = it.Current()
		if it.Current() != ev.Cur || len(r.Log) != n+len(ev.Effs) {
			ev.Panic += "|Current is not stable / effect free"
		}
	}()
	ev.Ok = it.MoveNext()
	return
}

func construct(f mk, r *rt.Rec) (it It, pn string) {
	defer func() {
		if p := recover(); p != nil {
			pn = rt.PanicStr(p)
		}
	}()
	return f(r, 0, 2), ""
}

func run(f mk, in In) (evs []Ev, newEffs, after int) {
	r := rt.NewRec(in.Tape, in.Budget)
	it, pn := construct(f, r)
	if pn != "" {
		// the generator function call itself panicked: no statement may run before the first MoveNext
		return []Ev{{Op: "new", Panic: "generator function call panicked: " + pn, Effs: r.Log}}, len(r.Log), 0
	}
	newEffs = len(r.Log)
	for c := 0; c < in.Calls; c++ {
		ev := step(it, r)
		evs = append(evs, ev)
		if ev.Panic != "" {
			break
		}
	}
	n := len(r.Log)
	runtime.Gosched()
	if s, ok := it.(interface{ Stop() }); ok {
		func() { defer func() { recover() }(); s.Stop() }()
	} else {
		after = len(r.Log) - n
	}
	return
}

func main() {
//REGISTER
	serve(func(in In) (out Out) {
		if g, ok := genAll[in.Idx]; ok {
			out.HasReal = true
			out.Real, out.RealNew, out.RealAft = run(g, in)
		}
		if g, ok := tmpAll[in.Idx]; ok {
			out.HasTmp = true
			out.Tmp, _, _ = run(g, in)
		}
		out.Nat, out.NatNew, _ = run(func(r *rt.Rec, a, b int) It { return nat.All[in.Idx](r, a, b) }, in)
		return
	})
}
`

var rePkgAll = regexp.MustCompile(`gen(\d+)/all\.go:`)
var reProgFile = regexp.MustCompile(`p(\d+)(_co)?\.go`)

func progOfLine(line string) int {
	m := reProgFile.FindStringSubmatch(line)
	if m == nil {
		return -1
	}
	n := 0
	fmt.Sscanf(m[1], "%d", &n)
	return n
}

// runSrcFamily renders every distinct program of the cases as go-co source and as
// native iter.Seq code, runs the REAL compiler on the go-co packages (isolating
// programs that make it panic or whose output does not build), builds everything
// and runs every case on the real runtime and natively.
func runSrcFamily(c *vf.Check, cases []srcCase, calls int, o srcOpts) *srcRun {
	return runSrcFamilyN(c, cases, func(int) int { return calls }, o)
}

func runSrcFamilyN(c *vf.Check, cases []srcCase, callsOf func(i int) int, o srcOpts) *srcRun {
	if o.Budget == 0 {
		o.Budget = 30
	}
	if o.PerPkg == 0 {
		o.PerPkg = 50
	}
	if o.Trailing == "" {
		o.Trailing = "needed"
	}
	api, importLine, useSeq := "", "\t. \"github.com/goghcrow/go-co\"\n", ""
	switch o.Import {
	case "named":
		api, importLine = "co.", "\t\"github.com/goghcrow/go-co\"\n"
	case "renamed":
		api, importLine = "gc.", "\tgc \"github.com/goghcrow/go-co\"\n"
	case "dot+seq": // the runtime package is already imported by the source, under its default name
		importLine += "\t\"github.com/goghcrow/go-co/seq\"\n"
		useSeq = "var _ seq.Iterator[int]\n"
	case "dot+sq": // ... or under another name
		importLine += "\tsq \"github.com/goghcrow/go-co/seq\"\n"
		useSeq = "var _ sq.Iterator[int]\n"
	}
	progs := newUniq()
	run := &srcRun{}
	var jobs []srcJob
	for ci, sc := range cases {
		i := progs.add(sc.Prog)
		run.ProgOf = append(run.ProgOf, i)
		jobs = append(jobs, srcJob{Idx: i, Tape: boolTape(sc.Tape), Calls: callsOf(ci), Budget: o.Budget})
	}
	run.Progs = progs.vals
	np := len(run.Progs)

	dir := c.S.Sub("src")
	c.S.WriteModule(dir, "scratch")
	writeFile(filepath.Join(dir, "rt", "rt.go"), rt.Source)
	writeFile(filepath.Join(dir, "common.go"), drvCommon)

	// native package: all programs
	natR := &srcRenderer{md: natMode, boxV: o.BoxVal, boxM: o.BoxMap}
	const per = 400
	for fi := 0; fi*per < np || fi == 0; fi++ {
		var b strings.Builder
		if o.By && fi == 0 {
			b.WriteString("package nat\n\nimport (\n\t_ \"embed\"\n\n\t\"scratch/rt\"\n)\n\nvar _ = rt.Y\n\n")
		} else {
			b.WriteString("package nat\n\nimport \"scratch/rt\"\n\nvar _ = rt.Y\n\n")
		}
		if fi == 0 {
			if o.By {
				b.WriteString("var All = []func(*rt.Rec, int, int) int{\n")
				for i := 0; i < np; i++ {
					fmt.Fprintf(&b, "\tB%d,\n", i)
				}
			} else if o.GG {
				b.WriteString("var All = []func(*rt.Rec, int, int) rt.IntIt{\n")
				for i := 0; i < np; i++ {
					fmt.Fprintf(&b, "\tfunc(r *rt.Rec, a, b int) rt.IntIt { return &rt.GGIt[*rt.NIter]{In: G%d(r, a, b)} },\n", i)
				}
			} else if o.Box {
				b.WriteString("var All = []func(*rt.Rec, int, int) *rt.NIterT[" + boxElem(o) + "]{\n")
				for i := 0; i < np; i++ {
					fmt.Fprintf(&b, "\tG%d,\n", i)
				}
			} else {
				b.WriteString("var All = []func(*rt.Rec, int, int) *rt.NIter{\n")
				for i := 0; i < np; i++ {
					fmt.Fprintf(&b, "\tG%d,\n", i)
				}
			}
			b.WriteString("}\n")
			if o.Deleg {
				b.WriteString(delegNat)
			}
			if o.Opt || o.By {
				b.WriteString(optDecls)
			}
			if o.By {
				b.WriteString(strings.ReplaceAll(strings.ReplaceAll(byExtras, "sidecount.Has(\"sidePKG\")", "1"), "PKG", "nat"))
			}
		}
		for i := fi * per; i < (fi+1)*per && i < np; i++ {
			if o.By {
				b.WriteString(natR.byFunc(fmt.Sprintf("B%d", i), arr(run.Progs[i])))
			} else {
				b.WriteString(natR.genFunc(fmt.Sprintf("G%d", i), arr(run.Progs[i]), o.Trailing))
			}
			b.WriteString("\n")
		}
		writeFile(filepath.Join(dir, "nat", fmt.Sprintf("f%d.go", fi)), b.String())
	}

	// (box helpers: see boxElem / boxAdapter)
	// go-co packages: one program per file, PerPkg per package
	coR := &srcRenderer{md: coMode, api: api, form: o.Form, boxV: o.BoxVal, boxM: o.BoxMap, plainVars: o.Opt || o.By}
	hdr := func(pkg string) string {
		if o.By {
			// a side-effect import and an import used only by non-generator code: both must survive
			return "//go:build co\n\npackage " + pkg + "\n\nimport (\n\t_ \"embed\"\n" + importLine + "\t\"scratch/rt\"\n\t_ \"scratch/side" + pkg + "\"\n\t\"scratch/sidecount\"\n)\n\nvar _ = rt.Y\nvar _ " + api + "Iter[int]\nvar _ = sidecount.Has\n\n"
		}
		return "//go:build co\n\npackage " + pkg + "\n\nimport (\n" + importLine + "\t\"scratch/rt\"\n)\n\nvar _ = rt.Y\nvar _ " + api + "Iter[int]\n" + useSeq + "\n"
	}
	if o.By {
		writeFile(filepath.Join(dir, "sidecount", "sidecount.go"), "package sidecount\n\nvar Loaded = map[string]bool{}\n\nfunc Has(s string) int {\n\tif Loaded[s] {\n\t\treturn 1\n\t}\n\treturn 0\n}\n")
		writeFile(filepath.Join(dir, "nat", "embed.txt"), "hello")
		for pk := 0; pk*o.PerPkg < np; pk++ {
			name := fmt.Sprintf("sidegen%03d", pk)
			writeFile(filepath.Join(dir, name, "side.go"), "package "+name+"\n\nimport \"scratch/sidecount\"\n\nfunc init() { sidecount.Loaded[\""+name+"\"] = true }\n")
		}
	}
	var extraFiles map[string]string
	if o.By {
		extraFiles = map[string]string{"embed.txt": "hello"}
	}
	plain := func(pkg string, live []int) string {
		var b strings.Builder
		for _, i := range live {
			fn := fmt.Sprintf("G%d", i)
			if o.By {
				fn = fmt.Sprintf("B%d", i)
			}
			if inPlainFile(fn) {
				b.WriteString(strings.TrimPrefix(pkgVars(arr(run.Progs[i]), fn), "\n"))
			}
		}
		if b.Len() == 0 {
			return ""
		}
		return "package " + pkg + "\n\n// an ordinary file of the package (not processed by the tool)\n" + b.String()
	}
	if !(o.Opt || o.By) {
		plain = nil
	}
	stub := "import (\n\t\"github.com/goghcrow/go-co/seq\"\n\t\"scratch/rt\"\n)\n\nvar All = map[int]func(*rt.Rec, int, int) seq.Iterator[int]{}"
	if o.Box {
		stub = strings.Replace(stub, "seq.Iterator[int]", "seq.Iterator["+boxElem(o)+"]", 1)
	}
	if o.By {
		stub = "import \"scratch/rt\"\n\nvar All = map[int]func(*rt.Rec, int, int) int{}"
	}
	if o.GG {
		stub = "import \"scratch/rt\"\n\nvar All = map[int]func(*rt.Rec, int, int) rt.IntIt{}"
	}
	u := unitSpec{N: np, PerPkg: o.PerPkg, Stage: o.Stage, Hdr: hdr, Files: extraFiles, Plain: plain, Stub: stub,
		File: func(i int) string {
			if o.By {
				return coR.byFunc(fmt.Sprintf("B%d", i), arr(run.Progs[i]))
			}
			return coR.genFunc(fmt.Sprintf("G%d", i), arr(run.Progs[i]), o.Trailing)
		},
		All: func(pkg string, live []int) string {
			var all strings.Builder
			if o.By {
				// every file of the package is processed (it imports and uses the API): one generator per file
				all.WriteString("var All = map[int]func(*rt.Rec, int, int) int{\n")
				for _, i := range live {
					fmt.Fprintf(&all, "\t%d: B%d,\n", i, i)
				}
				all.WriteString("}\n\nfunc GenInAll(r *rt.Rec) " + api + "Iter[int] { " + api + "Yield(1); return nil }\n")
				all.WriteString("\nvar GenLit = func(r *rt.Rec) " + api + "Iter[int] {\n\t" + api + "Yield(2)\n\treturn nil\n}\n")
				all.WriteString(optDecls + strings.ReplaceAll(byExtras, "PKG", pkg))
				return all.String()
			}
			if o.GG {
				// a closure in a processed file (not a generator): the type argument Iter[int] is rewritten too
				all.WriteString("var All = map[int]func(*rt.Rec, int, int) rt.IntIt{\n")
				for _, i := range live {
					fmt.Fprintf(&all, "\t%d: func(r *rt.Rec, a, b int) rt.IntIt { return &rt.GGIt[%sIter[int]]{In: G%d(r, a, b)} },\n", i, api, i)
				}
				all.WriteString("}\n")
				all.WriteString(strings.ReplaceAll(strings.ReplaceAll(strings.ReplaceAll(delegCo, "Iter[int]", api+"Iter[int]"), "Yield(", api+"Yield("), "YieldFrom(", api+"YieldFrom("))
				return all.String()
			}
			elem := "int"
			if o.Box {
				elem = boxElem(o)
			}
			if o.Form == "hygiene" {
				all.WriteString("// the element type of the generators of this package; their first parameter has the same name\ntype a = int\n\n")
			}
			all.WriteString("var All = map[int]func(*rt.Rec, int, int) " + api + "Iter[" + elem + "]{\n")
			for _, i := range live {
				fmt.Fprintf(&all, "\t%d: G%d,\n", i, i)
			}
			all.WriteString("}\n")
			if o.Opt {
				all.WriteString(optDecls)
			}
			if o.ElemExtras {
				all.WriteString(strings.ReplaceAll(strings.ReplaceAll(strings.ReplaceAll(elemExtras, "Iter[", api+"Iter["), "Yield(", api+"Yield("), "YieldFrom(", api+"YieldFrom("))
			}
			if o.Deleg {
				all.WriteString(strings.ReplaceAll(strings.ReplaceAll(strings.ReplaceAll(delegCo, "Iter[int]", api+"Iter[int]"), "Yield(", api+"Yield("), "YieldFrom(", api+"YieldFrom("))
			}
			return all.String()
		}}
	run.Status, run.Packages, run.CompilerRuns = compileUnits(c, dir, u)
	npk := run.Packages
	if o.CompileOnly {
		return run
	}

	// driver
	var imp, reg strings.Builder
	for pk := 0; pk < npk; pk++ {
		fmt.Fprintf(&imp, "\tgen%03d \"scratch/gen%03d\"\n", pk, pk)
		if o.By {
			fmt.Fprintf(&reg, "\tfor k, v := range gen%03d.All {\n\t\tv := v\n\t\tgenAll[k] = func(r *rt.Rec, a, b int) It { return &byIt{f: v, r: r, a: a, b: b, extras: gen%03d.Extras} }\n\t}\n", pk, pk)
		} else if o.Box {
			fmt.Fprintf(&reg, "\tfor k, v := range gen%03d.All {\n\t\tv := v\n\t\tgenAll[k] = func(r *rt.Rec, a, b int) It { return &"+boxAdapter(o)+"{In: v(r, a, b)} }\n\t}\n", pk)
		} else {
			fmt.Fprintf(&reg, "\tfor k, v := range gen%03d.All {\n\t\tv := v\n\t\tgenAll[k] = func(r *rt.Rec, a, b int) It { return v(r, a, b) }\n\t}\n", pk)
		}
		if o.Stage {
			if _, err := os.Stat(filepath.Join(dir, fmt.Sprintf("gen%03dstage", pk))); err == nil {
				fmt.Fprintf(&imp, "\ttmp%03d \"scratch/gen%03dstage\"\n", pk, pk)
				if o.Box {
					fmt.Fprintf(&reg, "\tfor k, v := range tmp%03d.All {\n\t\tv := v\n\t\ttmpAll[k] = func(r *rt.Rec, a, b int) It { return &"+boxAdapter(o)+"{In: v(r, a, b)} }\n\t}\n", pk)
				} else {
					fmt.Fprintf(&reg, "\tfor k, v := range tmp%03d.All {\n\t\tv := v\n\t\ttmpAll[k] = func(r *rt.Rec, a, b int) It { return v(r, a, b) }\n\t}\n", pk)
				}
			}
		}
	}
	drv := strings.Replace(srcDriverSrc, "//IMPORTS\n", imp.String(), 1)
	drv = strings.Replace(drv, "//REGISTER\n", reg.String(), 1)
	if o.By {
		drv = strings.Replace(drv, "return nat.All[in.Idx](r, a, b)", "return &byIt{f: nat.All[in.Idx], r: r, a: a, b: b, extras: nat.Extras}", 1)
	}
	if o.Box {
		drv = strings.Replace(drv, "return nat.All[in.Idx](r, a, b)", "return &"+boxAdapter(o)+"{In: nat.All[in.Idx](r, a, b)}", 1)
	}
	writeFile(filepath.Join(dir, "main.go"), drv)
	args := []string{"build", "-o", "driver"}
	if o.Race {
		args = append(args, "-race")
	}
	args = append(args, ".")
	if out, err := c.S.Run(dir, nil, "go", args...); err != nil {
		vf.Machinery("building the driver failed:\n%s", vf.Trunc(out, 3000))
	}
	res := runDriver(c, dir, "./driver", nil, jobs, len(jobs))
	run.Outs = make([]srcOut, len(jobs))
	for i, r := range res {
		if r.Status == "ok" {
			vf.Must(json.Unmarshal(r.Out, &run.Outs[i]))
		}
		run.Outs[i].Status = r.Status
		run.Outs[i].Crash = r.Crash
	}
	return run
}

// unitSpec describes a set of go-co source units (one function per file) to be put
// through the real compiler with crash isolation.
type unitSpec struct {
	N      int
	PerPkg int
	Stage  bool
	Hdr    func(pkg string) string             // file header (build tag, package clause, imports)
	File   func(i int) string                  // declarations of unit i (file p<i>_co.go)
	All    func(pkg string, live []int) string // registration file all_co.go for the units still alive
	Files  map[string]string                   // extra (non-Go) files of every package, name -> content
	Stub   string                              // declarations of an EMPTY registration (untagged world) for a package whose shared file makes the compiler fail; "" = machinery error
	Plain  func(pkg string, live []int) string // optional ordinary (untagged, not processed) Go file plain.go of the package
}

// compileUnits writes the packages gen000.., checks that the rendered source
// type-checks under -tags co (else machinery error), runs the REAL compiler on
// each package and builds the output; a unit that makes the compiler panic or
// whose generated code does not build is recorded in status and the package is
// recompiled without it.
func compileUnits(c *vf.Check, dir string, u unitSpec) (status []string, npk int, compilerRuns int) {
	cogen := buildCogen(c)
	if u.PerPkg == 0 {
		u.PerPkg = 50
	}
	status = make([]string, u.N)
	npk = (u.N + u.PerPkg - 1) / u.PerPkg
	pkgName := func(pk int) string { return fmt.Sprintf("gen%03d", pk) }
	writePkg := func(pk int) string {
		name := pkgName(pk)
		d := filepath.Join(dir, name)
		os.RemoveAll(d)
		os.RemoveAll(d + "_tmp")
		var live []int
		for i := pk * u.PerPkg; i < (pk+1)*u.PerPkg && i < u.N; i++ {
			if status[i] != "" {
				continue
			}
			live = append(live, i)
			writeFile(filepath.Join(d, fmt.Sprintf("p%d_co.go", i)), u.Hdr(name)+u.File(i))
		}
		writeFile(filepath.Join(d, "all_co.go"), u.Hdr(name)+u.All(name, live))
		for fn, content := range u.Files {
			writeFile(filepath.Join(d, fn), content)
		}
		if u.Plain != nil {
			if src := u.Plain(name, live); src != "" {
				writeFile(filepath.Join(d, "plain.go"), src)
			}
		}
		return d
	}
	var mu sync.Mutex
	var fatal string
	setFatal := func(s string) {
		mu.Lock()
		if fatal == "" {
			fatal = s
		}
		mu.Unlock()
	}
	// phase 0: write every package; source gate once for the whole module: rendered go-co source must
	// type-check under -tags co (else it is a renderer / grammar bug, never a verdict)
	var rels []string
	for pk := 0; pk < npk; pk++ {
		writePkg(pk)
		rels = append(rels, "./"+pkgName(pk)+"/")
	}
	if npk == 0 {
		return
	}
	if out, err := c.S.Run(dir, nil, "go", append([]string{"build", "-tags", "co"}, rels...)...); err != nil {
		vf.Machinery("rendered go-co source does not build under -tags co (renderer / grammar bug):\n%s", vf.Trunc(out, 2000))
	}
	// the real compiler on one package, isolating units that make it panic
	compilePkg := func(pk int) {
		for attempt := 0; attempt < u.PerPkg+3; attempt++ {
			mu.Lock()
			d := filepath.Join(dir, pkgName(pk))
			if attempt > 0 {
				d = writePkg(pk)
			}
			compilerRuns++
			mu.Unlock()
			env := []string{}
			if u.Stage {
				env = append(env, "GOCO_VERIF_STAGE_DIR="+d+"stage")
				os.RemoveAll(d + "stage")
			}
			out, err := c.S.Run(dir, env, cogen, "gogen", d)
			if err == nil {
				return
			}
			i := strings.Index(out, "COMPILER-PANIC")
			culprit := -1
			msg := "compiler exited: " + vf.Trunc(out, 300)
			if i >= 0 {
				msg = strings.SplitN(out[i:], "\n", 2)[0]
				if j := strings.LastIndex(out[:i], "visit file: "); j >= 0 {
					culprit = progOfLine(strings.SplitN(out[j:], "\n", 2)[0])
				}
			}
			if culprit < 0 || culprit >= u.N {
				if j := strings.LastIndex(out[:max(i, 0)], "visit file: "); i >= 0 && j >= 0 && strings.Contains(strings.SplitN(out[j:], "\n", 2)[0], "all_co.go") {
					// the compiler fails on the package's shared file (registration + extra declarations):
					// every program of the package is without output
					if u.Stub == "" {
						setFatal("the compiler fails on the shared file of a package: " + msg)
						return
					}
					mu.Lock()
					for p := pk * u.PerPkg; p < (pk+1)*u.PerPkg && p < u.N; p++ {
						if status[p] == "" {
							status[p] = "panic: " + msg + " (in the shared file all_co.go of the package)"
						}
					}
					// the package is replaced by an empty registration so that everything else still builds
					os.RemoveAll(d)
					os.RemoveAll(d + "_tmp")
					writeFile(filepath.Join(d, "stub.go"), "package "+pkgName(pk)+"\n\n"+u.Stub+"\n")
					mu.Unlock()
					return
				}
				setFatal("cannot attribute compiler failure to a program: " + msg)
				return
			}
			mu.Lock()
			status[culprit] = "panic: " + msg
			mu.Unlock()
		}
	}
	parallel := func(pks []int, f func(pk int)) {
		sem := make(chan struct{}, 16)
		var wg sync.WaitGroup
		for _, pk := range pks {
			wg.Add(1)
			go func(pk int) {
				defer wg.Done()
				sem <- struct{}{}
				defer func() { <-sem }()
				f(pk)
			}(pk)
		}
		wg.Wait()
	}
	todo := make([]int, npk)
	for pk := range todo {
		todo[pk] = pk
	}
	for round := 0; round < u.PerPkg+5 && len(todo) > 0; round++ {
		parallel(todo, compilePkg)
		if fatal != "" {
			vf.Machinery("%s", fatal)
		}
		// build the generated packages (without the tag) in one go; units whose output does not build are
		// recorded and their packages recompiled without them
		var brel []string
		for _, pk := range todo {
			brel = append(brel, "./"+pkgName(pk)+"/")
		}
		out, err := c.S.Run(dir, nil, "go", append([]string{"build", "-gcflags=-e"}, brel...)...)
		if err == nil {
			break
		}
		again := map[int]bool{}
		n := 0
		for _, ln := range strings.Split(out, "\n") {
			if !strings.Contains(ln, ".go:") {
				continue
			}
			if p := progOfLine(ln); p >= 0 && p < u.N && status[p] == "" {
				status[p] = "build: " + strings.TrimSpace(ln)
				again[p/u.PerPkg] = true
				n++
			} else if m := rePkgAll.FindStringSubmatch(ln); m != nil {
				// the registration file of the package (generated from all_co.go) does not build:
				// the output of the whole package is unusable
				pk := 0
				fmt.Sscanf(m[1], "%d", &pk)
				for i := pk * u.PerPkg; i < (pk+1)*u.PerPkg && i < u.N; i++ {
					if status[i] == "" {
						status[i] = "build: " + strings.TrimSpace(ln)
						n++
					}
				}
			}
		}
		if n == 0 {
			vf.Machinery("cannot attribute build failure of generated code:\n%s", vf.Trunc(out, 2000))
		}
		todo = todo[:0]
		for pk := range again {
			todo = append(todo, pk)
		}
		sort.Ints(todo)
		for _, pk := range todo {
			writePkg(pk)
		}
	}
	if u.Stage {
		all := make([]int, npk)
		for pk := range all {
			all[pk] = pk
		}
		parallel(all, func(pk int) { prepareStage(c, dir, filepath.Join(dir, pkgName(pk))) })
	}
	return
}

// prepareStage makes the unoptimised stage copy buildable: it still imports the
// API (nothing uses it after rewriting; import clean-up belongs to the optimiser),
// so exactly the imports `go build` reports as unused are stripped from the COPY.
func prepareStage(c *vf.Check, dir, d string) {
	stage := d + "stage"
	if _, err := os.Stat(stage); err != nil {
		return
	}
	base := filepath.Base(d)
	// ordinary files of the package belong to the staged copy as well
	if data, err := os.ReadFile(filepath.Join(d, "plain.go")); err == nil {
		vf.Must(os.WriteFile(filepath.Join(stage, "plain.go"), data, 0o644))
	}
	files, _ := filepath.Glob(filepath.Join(stage, "*.go"))
	for _, f := range files {
		data, _ := os.ReadFile(f)
		txt := strings.Replace(string(data), "package "+base+"\n", "package "+base+"stage\n", 1)
		vf.Must(os.WriteFile(f, []byte(txt), 0o644))
	}
	reUnused := regexp.MustCompile(`^(\S+\.go):(\d+):\d+: "([^"]+)" imported( as \S+)? and not used`)
	for round := 0; round < 3; round++ {
		out, err := c.S.Run(dir, nil, "go", "build", "-gcflags=-e", "./"+base+"stage/")
		if err == nil {
			return
		}
		fixed := false
		byFile := map[string][]int{}
		for _, ln := range strings.Split(out, "\n") {
			if m := reUnused.FindStringSubmatch(strings.TrimSpace(ln)); m != nil {
				n := 0
				fmt.Sscanf(m[2], "%d", &n)
				byFile[m[1]] = append(byFile[m[1]], n)
			}
		}
		for f, lines := range byFile {
			path := filepath.Join(dir, f)
			data, err := os.ReadFile(path)
			if err != nil {
				continue
			}
			ls := strings.Split(string(data), "\n")
			for _, n := range lines {
				if n-1 < len(ls) {
					ls[n-1] = ""
					fixed = true
				}
			}
			os.WriteFile(path, []byte(strings.Join(ls, "\n")), 0o644)
		}
		if !fixed {
			os.RemoveAll(stage) // the stage does not build for another reason; C07 reports it
			writeFile(filepath.Join(dir, base+"stage.err"), out)
			return
		}
	}
}

// package-level declarations of bystander packages that are not functions: constant, initialised
// variable, type with method, side-effect import, import used only here
const byExtras = `
const K = 40 + 2

// a directive comment on a bystander declaration, in a file that also holds a generator LITERAL
//
//go:embed embed.txt
var embedded string

var initialised = initV()

func initV() int { return 7 }

type pt struct{ x, y int }

func (p pt) sum() int { return p.x + p.y }

// Extras exposes the non-function declarations: expected 42, 7, 3, 1
func Extras() []int { return []int{K, initialised, pt{1, 2}.sum(), sidecount.Has("sidePKG"), len(embedded)} }
`

// ---------------------------------------------------------------- judging

type judgeStats struct {
	Compared, SpecNat, Pass, Known, Viol, Skipped int
	Nontrivial                                    map[string]bool
	BadProgs                                      map[int]bool
}

var srcKeys = []string{"ok", "cur", "panic", "effs"}

func describeOut(keys []string, evs []any, newEffs, after int) string {
	s := normEvents(evs, keys...)
	if newEffs != 0 {
		s += fmt.Sprintf(" +%d recorder entries written by the generator function call itself", newEffs)
	}
	if after != 0 {
		s += fmt.Sprintf(" +%d recorder entries after the consumer stopped", after)
	}
	return s
}

// judgeSrc compares every case: spec = native (else machinery error), real = ideal
// (pass), real = as-built expectation of an open known finding, else violation.
func judgeSrc(c *vf.Check, fam string, cases []srcCase, run *srcRun, flags string, keys []string, render func(p []any) string) *judgeStats {
	st := &judgeStats{Nontrivial: map[string]bool{}, BadProgs: map[int]bool{}}
	var specNatMsg string
	for i, sc := range cases {
		o := &run.Outs[i]
		p := run.ProgOf[i]
		exp := normEvents(sc.Ideal, keys...)
		expFull := normEvents(sc.Ideal, srcKeys...)
		if o.Status == "notrun" {
			continue
		}
		if o.Status != "ok" {
			// a hang or a fatal crash of the process while running this case
			if run.Status[p] == "" {
				st.Viol++
				st.BadProgs[p] = true
				c.Violation(J{"family": fam, "prog": sc.Prog, "tape": sc.Tape, "expected": json.RawMessage(exp), "actual": "driver " + o.Status, "detail": o.Crash, "source": render(sc.Prog)},
					fmt.Sprintf("program\n%s tape=%s: the run did not finish: %s %s", render(sc.Prog), canon(sc.Tape), o.Status, vf.Trunc(o.Crash, 300)))
			}
			continue
		}
		nat := describeOut(srcKeys, o.Nat, o.NatNew, 0)
		if nat != expFull {
			st.SpecNat++
			if specNatMsg == "" {
				specNatMsg = fmt.Sprintf("program\n%s tape=%s\n  spec:   %s\n  native: %s", render(sc.Prog), canon(sc.Tape), expFull, nat)
			}
			continue
		}
		if run.Status[p] != "" || !o.HasReal {
			st.Skipped++
			continue
		}
		st.Compared++
		real := describeOut(keys, o.Real, o.RealNew, o.RealAft)
		if len(sc.Ideal) > 0 && (len(arr(obj(sc.Ideal[0])["effs"])) > 0 || len(sc.Ideal) > 1 && obj(sc.Ideal[0])["ok"] == true) {
			st.Nontrivial[canon(sc.Prog)+canon(sc.Tape)] = true
		}
		if real == exp {
			st.Pass++
			if st.Pass%5003 == 7 {
				c.Sample(J{"family": fam, "source": render(sc.Prog), "tape": sc.Tape, "expected": json.RawMessage(exp)})
			}
			continue
		}
		if !sc.Same && real == normEvents(sc.AsBuilt, keys...) {
			st.Known++
			c.Known(flags, strings.ReplaceAll(render(sc.Prog), "\n", " ")+" tape="+canon(sc.Tape))
			continue
		}
		st.Viol++
		st.BadProgs[p] = true
		c.Violation(J{"family": fam, "prog": sc.Prog, "tape": sc.Tape, "expected": json.RawMessage(exp), "actual": real, "source": render(sc.Prog)},
			fmt.Sprintf("program\n%s tape=%s\n  spec: %s\n  real: %s", render(sc.Prog), canon(sc.Tape), exp, real))
	}
	if st.SpecNat > 0 {
		vf.Machinery("specification disagrees with native Go on %d cases (the spec must be fixed, this is never a violation); first:\n%s", st.SpecNat, specNatMsg)
	}
	return st
}

func boxElem(o srcOpts) string {
	if o.BoxMap {
		return "rt.BoxM"
	}
	if o.BoxVal {
		return "rt.BoxV"
	}
	return "*rt.Box"
}

func boxAdapter(o srcOpts) string {
	if o.BoxMap {
		return "rt.BoxMIt"
	}
	if o.BoxVal {
		return "rt.BoxVIt"
	}
	return "rt.BoxIt"
}

// elemExtras: generators over element types other than int (C11: the element type is arbitrary).
const elemExtras = `
type elemT struct{ A, B int }

func elSlice(n int) Iter[[]int] {
	for i := 0; i < n; i++ {
		Yield([]int{i})
	}
	return nil
}

func elMap(n int) Iter[map[string]int] {
	Yield(map[string]int{"n": n})
	Yield[map[string]int](nil)
	return nil
}

func elFunc(n int) Iter[func() int] {
	for i := 0; i < n; i++ {
		Yield(func() int { return i })
	}
	return nil
}

func elAny(n int) Iter[any] {
	Yield[any](n)
	Yield[any]("s")
	Yield[any](nil)
	return nil
}

func elErr(n int) Iter[error] {
	Yield[error](nil)
	return nil
}

func elStruct(n int) Iter[elemT] {
	Yield(elemT{n, n})
	return nil
}

func elPtr(n int) Iter[*elemT] {
	Yield(&elemT{n, n})
	return nil
}

func elChan(n int) Iter[chan int] {
	Yield(make(chan int))
	return nil
}

func elInner(i int) Iter[int] {
	Yield(i)
	return nil
}

// a generator of generators
func elIters(n int) Iter[Iter[int]] {
	for i := 0; i < n; i++ {
		Yield(elInner(i))
	}
	return nil
}

// flattening consumer-generator
func elFlat(n int) Iter[int] {
	for it := range elIters(n) {
		YieldFrom(it)
	}
	return nil
}

func elGeneric[T any](xs ...T) Iter[T] {
	for _, x := range xs {
		Yield(x)
	}
	return nil
}

func elPair[K comparable, V any](m map[K]V) Iter[V] {
	for _, v := range m {
		Yield(v)
	}
	return nil
}

var _ = elGeneric[string]
var _ = elPair[string, elemT]
`
