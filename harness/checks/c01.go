package checks

import (
	"fmt"
	"sort"
	"strings"
	"time"

	"verif/harness/vf"
)

func renderCo(p []any) string {
	return (&srcRenderer{md: coMode}).genFunc("G", p, "needed")
}

// compileFailures groups the programs the real compiler rejected / mistranslated
// into unbuildable code by message.
func compileFailures(run *srcRun) map[string][]int {
	groups := map[string][]int{}
	for i, st := range run.Status {
		if st == "" {
			continue
		}
		key := st
		if strings.HasPrefix(st, "build: ") {
			key = "build: " + st[strings.LastIndex(st, ": ")+2:]
		} else if j := strings.Index(st, " in: "); j > 0 {
			key = st[:j]
		}
		groups[key] = append(groups[key], i)
	}
	return groups
}

func noteCompileFailures(c *vf.Check, run *srcRun) int {
	groups := compileFailures(run)
	keys := make([]string, 0, len(groups))
	n := 0
	for k, v := range groups {
		keys = append(keys, k)
		n += len(v)
	}
	sort.Strings(keys)
	for _, k := range keys {
		v := groups[k]
		c.Note("not compared (the compiler fails on it; reported by C11): %q programs=%d e.g. %s", k, len(v), strings.ReplaceAll(renderCo(arr(run.Progs[v[0]])), "\n", " "))
	}
	return n
}

func srcCoverage(c *vf.Check, res *vf.TLCResult, cases []srcCase, run *srcRun, st *judgeStats, consts map[string]string, rule string) {
	c.Add("states", res.Distinct)
	c.Add("transitions", res.Generated)
	c.Add("traces_validated_against_impl", int64(st.Compared))
	c.Add("programs", int64(len(run.Progs)))
	c.Add("evaluations", int64(len(cases)))
	c.Add("distinct_nontrivial", int64(len(st.Nontrivial)))
	c.Add("spec_vs_native_agreements", int64(len(cases)))
	c.Add("compiler_runs", int64(run.CompilerRuns))
	c.Cov["rule"] = rule
	c.Cov["bounds"] = consts
}

// C01: compiled generators yield exactly the source's coroutine sequence.
func C01(c *vf.Check) {
	consts := map[string]string{
		"Family":    `"ctl"`,
		"MaxSize":   tier(c, "3", "4"),
		"TapeLen":   tier(c, "3", "4"),
		"MaxCalls":  tier(c, "5", "6"),
		"OpenFlags": flagSet(c, "KF04", "KF16"),
		"Lazy":      tier(c, "FALSE", "TRUE"),
	}
	cases, res := collectSrcCases(c, "MC_Src", "MC_Src.cfg", consts, tier(c, 10*time.Minute, 90*time.Minute))
	c.Note("TLC MC_Src(ctl): %d states, %d cases emitted (%.0fs)", res.Distinct, res.Cases, res.Wall.Seconds())
	calls := 5
	fmt.Sscan(consts["MaxCalls"], &calls)
	run := runSrcFamily(c, cases, calls, srcOpts{})
	nfail := noteCompileFailures(c, run)
	st := judgeSrc(c, "F_ctl", cases, run, "KF04", []string{"ok", "cur", "panic"}, renderCo)
	c.Note("F_ctl: programs=%d (compile/build failures %d) cases=%d compared=%d pass=%d known=%d violations=%d; spec=native on all %d cases",
		len(run.Progs), nfail, len(cases), st.Compared, st.Pass, st.Known, st.Viol, len(cases))
	if len(cases) > 0 {
		bindingSelfTest(c, "C01", cases[len(cases)/2].Ideal, srcKeys)
	}
	srcCoverage(c, res, cases, run, st, consts,
		"every generator program of the control-flow family F_ctl (eff, inc, yield of literal/variable, if/else, tagged switch, block, for with optional yielding init / trivial or yielding post / optional condition, break, continue, return) up to MaxSize statements x every tape up to TapeLen, MaxCalls advances (prefixes = every finite prefix / truncation); non-trivial = distinct (program,tape) whose run yields at least once or performs an effect in the first advance")
	c.Cov["exhaustive"] = true
	c.Assumptions = append(c.Assumptions,
		"oracle = CoSource.tla, validated on every case of this run against native Go (iter.Pull rendering of the same AST)",
		"element type int, two int parameters; programs the compiler rejects or whose output does not build are C11's business and are not compared here")
}
