package checks

import (
	"encoding/json"
	"fmt"
	"math/rand"
	"os"
	"path/filepath"
	"sort"
	"strings"
	"time"

	"verif/harness/vf"
)

func renderCo(p []any) string {
	return (&srcRenderer{md: coMode}).genFunc("G", p, "needed")
}

// compileFailures groups the programs the real compiler rejected / mistranslated
// into unbuildable code by message.
func compileFailures(run *srcRun) map[string][]int {
	groups := map[string][]int{}
	for i, st := range run.Status {
		if st == "" {
			continue
		}
		key := st
		if strings.HasPrefix(st, "build: ") {
			key = "build: " + st[strings.LastIndex(st, ": ")+2:]
		} else if j := strings.Index(st, " in: "); j > 0 {
			key = st[:j]
		}
		groups[key] = append(groups[key], i)
	}
	return groups
}

func noteCompileFailures(c *vf.Check, run *srcRun) int {
	groups := compileFailures(run)
	keys := make([]string, 0, len(groups))
	n := 0
	for k, v := range groups {
		keys = append(keys, k)
		n += len(v)
	}
	sort.Strings(keys)
	for _, k := range keys {
		v := groups[k]
		c.Note("not compared (the compiler fails on it; reported by C11): %q programs=%d e.g. %s", k, len(v), strings.ReplaceAll(renderCo(arr(run.Progs[v[0]])), "\n", " "))
	}
	return n
}

func srcCoverage(c *vf.Check, res *vf.TLCResult, cases []srcCase, run *srcRun, st *judgeStats, consts map[string]string, rule string) {
	c.Add("states", res.Distinct)
	c.Add("transitions", res.Generated)
	c.Add("traces_validated_against_impl", int64(st.Compared))
	c.Add("programs", int64(len(run.Progs)))
	c.Add("evaluations", int64(len(cases)))
	c.Add("distinct_nontrivial", int64(len(st.Nontrivial)))
	c.Add("spec_vs_native_agreements", int64(len(cases)))
	c.Add("compiler_runs", int64(run.CompilerRuns))
	c.Cov["rule"] = rule
	c.Cov["bounds"] = consts
}

// randomLarger derives n programs of size 5..12 from seeded choice tapes with the
// grammar of spec/MC_Rnd.tla (same alphabet as F_ctl), 3 input tapes each, and puts
// them through the same pipeline.
func randomLarger(c *vf.Check, id string, keys []string, n int) {
	if v := os.Getenv("VERIF_RANDOM_N"); v != "" {
		fmt.Sscan(v, &n)
	}
	rnd := rand.New(rand.NewSource(c.Seed*7919 + 13))
	var sb strings.Builder
	for i := 0; i < n; i++ {
		size := 5 + rnd.Intn(8)
		ch := make([]int, 80)
		for j := range ch {
			ch[j] = rnd.Intn(64)
		}
		for t := 0; t < 3; t++ {
			tape := make([]bool, 2+rnd.Intn(7))
			for j := range tape {
				tape[j] = rnd.Float64() < 0.6
			}
			b, _ := json.Marshal(J{"size": size, "ch": ch, "tape": tape})
			sb.Write(b)
			sb.WriteByte('\n')
		}
	}
	f := filepath.Join(c.S.Sub("choices"), "choices.ndjson")
	writeFile(f, sb.String())
	var cases []srcCase
	res := c.S.RunTLC(vf.TLCRun{Module: "MC_Rnd", Cfg: "MC_Rnd.cfg", Consts: map[string]string{"OpenFlags": flagSet(c, "KF04", "KF16")},
		Env: []string{"VERIF_CHOICES=" + f}, Timeout: 30 * time.Minute,
		OnCase: func(raw []byte) {
			var sc srcCase
			vf.Must(json.Unmarshal(raw, &sc))
			if sc.Prog == nil {
				sc.Prog = []any{}
			}
			cases = append(cases, sc)
		}})
	res.MustComplete("MC_Rnd")
	run := runSrcFamilyCalls(c, cases, srcOpts{Budget: 60})
	nfail := noteCompileFailures(c, run)
	st := judgeSrc(c, "F_ctl(derived)", cases, run, "KF04", keys, renderCo)
	c.Note("derived larger programs (size 5..12, seed %d): programs=%d (compile/build failures %d) cases=%d compared=%d pass=%d violations=%d; spec=native on all", c.Seed, len(run.Progs), nfail, len(cases), st.Compared, st.Pass, st.Viol)
	c.Add("states", res.Distinct)
	c.Add("transitions", res.Generated)
	c.Add("traces_validated_against_impl", int64(st.Compared))
	c.Add("programs", int64(len(run.Progs)))
	c.Add("evaluations", int64(len(cases)))
	c.Add("random_programs", int64(len(run.Progs)))
}

// C01: compiled generators yield exactly the source's coroutine sequence.
func C01(c *vf.Check) {
	keys := []string{"ok", "cur", "panic"}
	runFam(c, famSpec{id: "C01", fam: "ctl", name: "F_ctl", sizeQ: "3", sizeT: "3", tapeQ: "3", tapeT: "4", callsQ: 5, callsT: 6, keys: keys, lazyT: true,
		rule:   "F_ctl: every generator program of the control-flow family (eff, inc, yield of literal/variable, if/else, tagged switch, block, for with optional yielding init / trivial or yielding post / optional condition, break, continue, return, return <expr>) up to MaxSize statements x every tape up to TapeLen, MaxCalls advances (prefixes = every finite prefix / truncation); F_lit: nested function literals (an immediately invoked closure, a generator literal nested in the generator and capturing its variables, delegated to) in the control alphabet; F_jump: only what interacts with break/continue (loops with and without yielding post, switch, if) one size level deeper; plus programs of size 5..12 derived from seeded choice tapes by the same grammar (MC_Rnd.tla); non-trivial = distinct (program,tape) whose run yields at least once or performs an effect in the first advance",
		assume: []string{"element type int, two int parameters; programs the compiler rejects or whose output does not build are C11's business and are not compared here"}})
	runFam(c, famSpec{id: "C01", fam: "lit", name: "F_lit", sizeQ: "3", sizeT: "3", tapeQ: "2", tapeT: "3", callsQ: 6, callsT: 7, keys: keys, rule: ""})
	runFam(c, famSpec{id: "C01", fam: "jump", name: "F_jump", sizeQ: "4", sizeT: "5", tapeQ: "2", tapeT: "3", callsQ: 6, callsT: 7, keys: keys, lazyT: true, rule: ""})
	// the same control-flow programs under every way of declaring a generator (method, generic function,
	// function literal, literal nested in a literal): behaviour, not only compilation (C11)
	for _, form := range []string{"method", "generic", "lit", "nestedlit"} {
		runFam(c, famSpec{id: "C01", fam: "ctl", name: "F_ctl/" + form, sizeQ: "2", sizeT: "3", tapeQ: "2", tapeT: "2", callsQ: 5, callsT: 6, keys: keys,
			opts: srcOpts{Form: form}, rule: ""})
	}
	randomLarger(c, "C01", keys, tier(c, 300, 5000))
}
