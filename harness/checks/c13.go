package checks

import (
	"verif/harness/vf"
)

// C13: code that is not a generator is behaviourally unchanged.
//
// Bystanders: plain functions (no yield) living in processed files, built from the
// same closures of eta shape as F_opt and observed by effects; CoSource runs them
// eagerly. The generated file's version of every function is called once and its
// effect log, result, and the package's non-function declarations (constant,
// initialised variable, type with method, side-effect import, import used only by
// non-generator code) are compared with the specification; the native rendering
// (the same function compiled directly) validates the specification. Ordinary
// closures inside GENERATOR bodies are the F_opt family, judged here against the
// specification (C07 compares the two compiler stages instead).
func C13(c *vf.Check) {
	runFam(c, famSpec{id: "C13", fam: "by", name: "F_by", sizeQ: "3", sizeT: "3", tapeQ: "2", tapeT: "3", callsQ: 1, callsT: 1,
		keys: fullKeys, opts: srcOpts{By: true, Opt: true}, by: true, lazyT: true, failIsViolation: true,
		render: func(p []any) string { return (&srcRenderer{md: coMode}).byFunc("B", p) },
		rule:   "F_by: every plain function up to MaxSize statements built from effects, a++, loops whose condition is a function VARIABLE reassigned in the body, a method value whose receiver variable is reassigned, wrappers func(ps){return f(ps)} around a package function / generic instance / builtin len / conversion, observed through r.E(id, expr, 0); each lives in a processed file next to generator code; compared: effect log, result, and the values of a constant, an initialised variable, a method of a local type, and the presence of a side-effect import; F_opt: the same closures inside generator bodies, compared with the specification per call",
		assume: []string{"bystanders are rendered with int parameters; comments are not compared (the property is behavioural)"}})
	runFam(c, famSpec{id: "C13", fam: "byx", name: "F_byx", sizeQ: "2", sizeT: "3", tapeQ: "2", tapeT: "2", callsQ: 1, callsT: 1,
		keys: fullKeys, opts: srcOpts{By: true, Opt: true}, by: true, failIsViolation: true,
		render: func(p []any) string { return (&srcRenderer{md: coMode}).byFunc("B", p) }, rule: ""})
	runFam(c, famSpec{id: "C13", fam: "optx", name: "F_optx", sizeQ: "2", sizeT: "3", tapeQ: "2", tapeT: "2", callsQ: 4, callsT: 5,
		keys: fullKeys, opts: srcOpts{Opt: true}, failIsViolation: true, rule: ""})
	runFam(c, famSpec{id: "C13", fam: "opt", name: "F_opt", sizeQ: "3", sizeT: "3", tapeQ: "2", tapeT: "3", callsQ: 5, callsT: 6,
		keys: fullKeys, opts: srcOpts{Opt: true}, lazyT: true, failIsViolation: true, rule: ""})
}
