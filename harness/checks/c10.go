package checks

import (
	"encoding/json"
	"fmt"
	"math/rand"
	"os"
	"path/filepath"
	"strings"
	"time"

	"verif/harness/vf"
)

const rangeDriverSrc = `package main

import (
	"fmt"
	"math"

	"github.com/goghcrow/go-co/seq"
)

type E struct {
	Op string ` + "`json:\"op\"`" + `
	K  int    ` + "`json:\"k\"`" + `
	V  int    ` + "`json:\"v\"`" + `
	J  int    ` + "`json:\"j\"`" + `
	M  int    ` + "`json:\"m\"`" + `
	At int    ` + "`json:\"at\"`" + `
}
type In struct {
	Kind   string ` + "`json:\"kind\"`" + `
	Bytes  []int  ` + "`json:\"bytes\"`" + `
	N      int    ` + "`json:\"n\"`" + `
	Trace  []E    ` + "`json:\"trace\"`" + `
	Keys   []int  ` + "`json:\"keys\"`" + `
	NilVal int    ` + "`json:\"nilval\"`" + `
	Script []E    ` + "`json:\"script\"`" + `
	Cap    int    ` + "`json:\"cap\"`" + `
}
type Out struct {
	Nat  []E    ` + "`json:\"nat\"`" + `
	Real []E    ` + "`json:\"real\"`" + `
	NatPanic  string ` + "`json:\"natpanic\"`" + `
	RealPanic string ` + "`json:\"realpanic\"`" + `
}

func guard(p *string, f func()) {
	defer func() {
		if r := recover(); r != nil {
			*p = fmt.Sprint(r)
		}
	}()
	f()
}

func isMut(op string) bool { return op != "visit" && op != "end" }

// walk drives one loop over the scripted events: loop(body) must call body(k, v)
// for every iteration; mutations listed after a visit are applied in that body.
func walk(trace []E, apply func(E), loop func(body func(k, v int))) (rec []E) {
	pos := 0
	muts := func() {
		for pos < len(trace) && isMut(trace[pos].Op) {
			apply(trace[pos])
			pos++
		}
	}
	muts() // events before the first iteration (close of a channel)
	loop(func(k, v int) {
		rec = append(rec, E{Op: "visit", K: k, V: v})
		if len(rec) > 64 {
			panic("runaway loop")
		}
		if pos < len(trace) && trace[pos].Op == "visit" {
			pos++
		}
		muts()
	})
	rec = append(rec, E{Op: "end"})
	return
}

func key(k int) any {
	if k == 0 {
		return nil
	}
	if k == 4 {
		return math.NaN() // not equal to itself: m[key] never finds the entry
	}
	return k
}
func unkey(k any) int {
	if k == nil {
		return 0
	}
	if f, ok := k.(float64); ok && f != f {
		return 4
	}
	return k.(int)
}
func val(k, nilval int) any {
	if k == nilval {
		return nil
	}
	return 10 * k
}
func unval(v any) int {
	if v == nil {
		return -1
	}
	return v.(int)
}

func mapLoop(in In, loop func(m map[any]any, body func(k, v any))) (rec []E) {
	m := map[any]any{}
	for _, k := range in.Keys {
		m[key(k)] = val(k, in.NilVal)
	}
	rec = append(rec, E{Op: "reset"})
	visits := 0
	loop(m, func(k, v any) {
		rec = append(rec, E{Op: "visit", K: unkey(k), V: unval(v)})
		visits++
		if visits > 64 {
			panic("runaway loop")
		}
		for _, s := range in.Script {
			if s.At == visits {
				if s.Op == "delete" {
					delete(m, key(s.K))
				} else {
					m[key(s.K)] = val(s.K, in.NilVal)
				}
				rec = append(rec, E{Op: s.Op, K: s.K})
			}
		}
	})
	rec = append(rec, E{Op: "end"})
	return
}

func main() {
	serve(func(in In) (out Out) {
		switch in.Kind {
		case "string":
			bs := make([]byte, len(in.Bytes))
			for i, b := range in.Bytes {
				bs[i] = byte(b)
			}
			s := string(bs)
			guard(&out.NatPanic, func() {
				for i, r := range s {
					out.Nat = append(out.Nat, E{Op: "visit", K: i, V: int(r)})
				}
			})
			guard(&out.RealPanic, func() {
				for it := seq.NewStringIter(s); it.MoveNext(); {
					p := it.Current()
					out.Real = append(out.Real, E{Op: "visit", K: p.Key, V: int(p.Val)})
					if len(out.Real) > 4*len(bs)+4 {
						panic("runaway loop")
					}
				}
			})
		case "int":
			guard(&out.NatPanic, func() {
				for i := range in.N {
					out.Nat = append(out.Nat, E{Op: "visit", K: i})
				}
			})
			guard(&out.RealPanic, func() {
				it := seq.NewIntegerIter(in.N)
				for it.MoveNext() {
					out.Real = append(out.Real, E{Op: "visit", K: it.Current().Key})
					if len(out.Real) > 64 {
						panic("runaway loop")
					}
				}
				for j := 0; j < 300; j++ { // an exhausted iterator stays exhausted
					if it.MoveNext() {
						panic("MoveNext true after exhaustion")
					}
				}
				// sized, unsigned and named integer types: same keys, of the operand's type
				if in.N >= 0 && in.N < 100 {
					type myInt int16
					var a, b, c []int
					it8 := seq.NewIntegerIter(uint8(in.N))
					for it8.MoveNext() {
						var k uint8 = it8.Current().Key
						a = append(a, int(k))
					}
					for j := 0; j < 300; j++ {
						if it8.MoveNext() {
							panic("uint8: MoveNext true after exhaustion")
						}
					}
					for it := seq.NewIntegerIter(int64(in.N)); it.MoveNext(); {
						var k int64 = it.Current().Key
						b = append(b, int(k))
					}
					for it := seq.NewIntegerIter(myInt(in.N)); it.MoveNext(); {
						var k myInt = it.Current().Key
						c = append(c, int(k))
					}
					for _, l := range [][]int{a, b, c} {
						if len(l) != len(out.Real) {
							panic("typed integer iterator: different number of iterations")
						}
						for j := range l {
							if l[j] != out.Real[j].K {
								panic("typed integer iterator: different keys")
							}
						}
					}
				}
			})
		case "slice":
			mk := func() (*[]int, func(E)) {
				arr := make([]int, in.Cap)
				for j := 0; j < in.N; j++ {
					arr[j] = 10 * (j + 1)
				}
				s := arr[:in.N]
				return &s, func(e E) {
					switch e.Op {
					case "set":
						s[e.J] = e.V
					case "append":
						s = append(s, e.V)
					case "trunc":
						s = s[:e.M]
					}
				}
			}
			guard(&out.NatPanic, func() {
				s, apply := mk()
				out.Nat = walk(in.Trace, apply, func(body func(k, v int)) {
					for k, v := range *s {
						body(k, v)
					}
				})
			})
			guard(&out.RealPanic, func() {
				s, apply := mk()
				out.Real = walk(in.Trace, apply, func(body func(k, v int)) {
					for it := seq.NewSliceIter(*s); it.MoveNext(); {
						p := it.Current()
						body(p.Key, p.Val)
					}
				})
			})
		case "chan":
			mk := func() (chan int, func(E)) {
				ch := make(chan int, in.Cap)
				for j := 0; j < in.N; j++ {
					ch <- 10 * (j + 1)
				}
				return ch, func(e E) {
					switch e.Op {
					case "send":
						ch <- e.V
					case "close":
						close(ch)
					}
				}
			}
			guard(&out.NatPanic, func() {
				ch, apply := mk()
				out.Nat = walk(in.Trace, apply, func(body func(k, v int)) {
					for v := range ch {
						body(v, 0)
					}
				})
			})
			guard(&out.RealPanic, func() {
				ch, apply := mk()
				out.Real = walk(in.Trace, apply, func(body func(k, v int)) {
					for it := seq.NewChanIter[int](ch); it.MoveNext(); {
						body(it.Current().Key, 0)
					}
				})
			})
		case "map":
			guard(&out.NatPanic, func() {
				out.Nat = mapLoop(in, func(m map[any]any, body func(k, v any)) {
					for k, v := range m {
						body(k, v)
					}
				})
			})
			guard(&out.RealPanic, func() {
				out.Real = mapLoop(in, func(m map[any]any, body func(k, v any)) {
					for it := seq.NewMapIter(m); it.MoveNext(); {
						p := it.Current()
						body(p.Key, p.Val)
					}
				})
			})
		}
		return
	})
}
`

type rangeCase struct {
	Kind  string `json:"kind"`
	Inp   any    `json:"inp"`
	Trace []any  `json:"trace"`
}

type rangeJob struct {
	Kind   string `json:"kind"`
	Bytes  []int  `json:"bytes"`
	N      int    `json:"n"`
	Trace  []any  `json:"trace"`
	Keys   []int  `json:"keys"`
	NilVal int    `json:"nilval"`
	Script []any  `json:"script"`
	Cap    int    `json:"cap"`
}

func visitsOnly(evs []any) string {
	var xs []J
	for _, e := range evs {
		m := obj(e)
		if m["op"] == "visit" {
			xs = append(xs, J{"k": num(m["k"]), "v": num(m["v"])})
		}
	}
	if xs == nil {
		xs = []J{}
	}
	return canon(xs)
}

// C10: built-in range iterators equal Go's range for every input.
func C10(c *vf.Check) {
	rnd := rand.New(rand.NewSource(c.Seed))
	alphabet := []int{0, 65, 127, 128, 191, 194, 223, 224, 160, 237, 159, 240, 144, 244, 143, 255, 239, 189}
	nrand := tier(c, 300, 3000)
	var sb strings.Builder
	for i := 0; i < nrand; i++ {
		n := 5 + rnd.Intn(60)
		bs := make([]int, n)
		for j := range bs {
			switch rnd.Intn(3) {
			case 0:
				bs[j] = alphabet[rnd.Intn(len(alphabet))]
			case 1:
				bs[j] = rnd.Intn(256)
			default:
				bs[j] = 128 + rnd.Intn(128)
			}
		}
		b, _ := json.Marshal(J{"s": bs})
		sb.Write(b)
		sb.WriteByte('\n')
	}
	// boundary runes (validly encoded, among them U+FFFD itself), surrogates, overlong and out-of-range forms,
	// truncated sequences: alone, embedded, doubled; and random mixtures of valid runes with stray bytes
	special := [][]int{
		{0xEF, 0xBF, 0xBD}, {0xC2, 0x80}, {0xDF, 0xBF}, {0xE0, 0xA0, 0x80}, {0xEF, 0xBF, 0xBF}, {0xF0, 0x90, 0x80, 0x80}, {0xF4, 0x8F, 0xBF, 0xBF},
		{0xED, 0xA0, 0x80}, {0xED, 0xBF, 0xBF}, {0xC0, 0x80}, {0xC1, 0xBF}, {0xE0, 0x80, 0x80}, {0xF0, 0x80, 0x80, 0x80}, {0xF4, 0x90, 0x80, 0x80}, {0xF5, 0x80, 0x80, 0x80},
		{0xEF, 0xBF}, {0xF0, 0x90, 0x80}, {0xE0, 0xA0}, {0xEE, 0x80, 0x80}, {0xEF, 0xBB, 0xBF},
	}
	emitStr := func(bs []int) {
		b, _ := json.Marshal(J{"s": bs})
		sb.Write(b)
		sb.WriteByte('\n')
	}
	for _, sp := range special {
		emitStr(sp)
		emitStr(append(append([]int{97}, sp...), 98))
		emitStr(append(append([]int{}, sp...), sp...))
		emitStr(append(append([]int{0xFF}, sp...), 0x80))
	}
	nrune := tier(c, 200, 2000)
	for i := 0; i < nrune; i++ {
		var bs []int
		for j, n := 0, 2+rnd.Intn(12); j < n; j++ {
			switch rnd.Intn(5) {
			case 0:
				bs = append(bs, special[rnd.Intn(len(special))]...)
			case 1:
				bs = append(bs, 128+rnd.Intn(128))
			default:
				for _, b := range []byte(string(rune(rnd.Intn(0x110000)))) {
					bs = append(bs, int(b))
				}
			}
		}
		emitStr(bs)
	}
	nrand += 4*len(special) + nrune
	strFile := filepath.Join(c.S.Sub("strings"), "strings.ndjson")
	writeFile(strFile, sb.String())

	maxElems := 3
	consts := map[string]string{"MaxLen": tier(c, "3", "4"), "MaxMuts": tier(c, "2", "3")}
	var cases []rangeCase
	res := c.S.RunTLC(vf.TLCRun{Module: "MC_Range", Cfg: "MC_Range.cfg", Consts: consts, Timeout: 30 * time.Minute,
		Env: []string{"VERIF_STRINGS=" + strFile},
		OnCase: func(raw []byte) {
			var rc rangeCase
			vf.Must(json.Unmarshal(raw, &rc))
			cases = append(cases, rc)
		}})
	res.MustComplete("MC_Range")
	c.Note("TLC MC_Range: %d states, %d cases (strings incl. %d random long ones, ints, slice and channel loops with mutation interleavings, map scenarios) (%.0fs)", res.Distinct, res.Cases, nrand, res.Wall.Seconds())

	var jobs []rangeJob
	for _, rc := range cases {
		j := rangeJob{Kind: rc.Kind, Trace: rc.Trace, Cap: maxElems + 2}
		switch rc.Kind {
		case "string":
			for _, b := range arr(rc.Inp) {
				j.Bytes = append(j.Bytes, num(b))
			}
		case "int", "slice", "chan":
			j.N = num(rc.Inp)
		case "map":
			m := obj(rc.Inp)
			for _, k := range arr(m["keys"]) {
				j.Keys = append(j.Keys, num(k))
			}
			j.NilVal = num(m["nilval"])
			j.Script = arr(m["script"])
		}
		if j.Trace == nil {
			j.Trace = []any{}
		}
		if j.Script == nil {
			j.Script = []any{}
		}
		jobs = append(jobs, j)
	}
	dir := c.S.Sub("range")
	c.S.WriteModule(dir, "scratch")
	writeFile(filepath.Join(dir, "common.go"), drvCommon)
	writeFile(filepath.Join(dir, "main.go"), rangeDriverSrc)
	if out, err := c.S.Run(dir, nil, "go", "build", "-o", "driver", "."); err != nil {
		vf.Machinery("building the range driver failed:\n%s", vf.Trunc(out, 3000))
	}
	results := runDriver(c, dir, "./driver", nil, jobs, len(jobs))

	type rout struct {
		Nat       []any  `json:"nat"`
		Real      []any  `json:"real"`
		NatPanic  string `json:"natpanic"`
		RealPanic string `json:"realpanic"`
	}
	specNat, specNatMsg := 0, ""
	byKind := map[string]int{}
	nontrivial := map[string]bool{}
	var natTrace, realTrace strings.Builder
	var realScen []int // case index of every scenario written to realTrace
	emit := func(b *strings.Builder, evs []any, rc rangeCase) {
		m := obj(rc.Inp)
		for _, e := range evs {
			em := obj(e)
			if em["op"] == "reset" {
				l, _ := json.Marshal(J{"op": "reset", "keys": m["keys"], "nilval": m["nilval"]})
				b.Write(l)
			} else {
				l, _ := json.Marshal(J{"op": em["op"], "k": num(em["k"]), "v": num(em["v"])})
				b.Write(l)
			}
			b.WriteByte('\n')
		}
	}
	describe := func(rc rangeCase) string {
		return fmt.Sprintf("%s input=%s script=%s", rc.Kind, canon(rc.Inp), vf.Trunc(canon(rc.Trace), 300))
	}
	for i, rc := range cases {
		byKind[rc.Kind]++
		r := results[i]
		if r.Status == "notrun" {
			continue
		}
		if r.Status != "ok" {
			c.Violation(J{"kind": rc.Kind, "input": rc.Inp, "script": rc.Trace, "status": r.Status}, fmt.Sprintf("%s: the loop over the iterator did not finish: %s", describe(rc), r.Status))
			continue
		}
		var o rout
		vf.Must(json.Unmarshal(r.Out, &o))
		if rc.Kind == "map" {
			if o.NatPanic != "" {
				specNat++
				specNatMsg = "native map loop panicked: " + o.NatPanic
				continue
			}
			emit(&natTrace, o.Nat, rc)
			if o.RealPanic != "" {
				c.Violation(J{"kind": "map", "input": rc.Inp, "panic": o.RealPanic}, fmt.Sprintf("map iterator panics where Go's range does not: %s: %s", canon(rc.Inp), o.RealPanic))
				continue
			}
			emit(&realTrace, o.Real, rc)
			realScen = append(realScen, i)
			if len(arr(obj(rc.Inp)["script"])) > 0 {
				nontrivial[canon(rc.Inp)] = true
			}
			continue
		}
		exp := visitsOnly(rc.Trace)
		if nat := visitsOnly(o.Nat); nat != exp || o.NatPanic != "" {
			specNat++
			if specNatMsg == "" {
				specNatMsg = fmt.Sprintf("%s\n  spec:   %s\n  native: %s %s", describe(rc), exp, nat, o.NatPanic)
			}
			continue
		}
		real := visitsOnly(o.Real)
		if o.RealPanic != "" {
			real += " panic: " + o.RealPanic
		}
		if len(rc.Trace) > 1 {
			nontrivial[rc.Kind+canon(rc.Inp)+canon(rc.Trace)] = true
		}
		if real != exp {
			c.Violation(J{"kind": rc.Kind, "input": rc.Inp, "script": rc.Trace, "expected": json.RawMessage(exp), "actual": real},
				fmt.Sprintf("%s\n  Go's range (spec): %s\n  iterator:          %s", describe(rc), vf.Trunc(exp, 400), vf.Trunc(real, 400)))
		} else if i%997 == 3 {
			c.Sample(J{"kind": rc.Kind, "input": rc.Inp, "script": rc.Trace})
		}
	}
	if specNat > 0 {
		vf.Machinery("RangeSem disagrees with native Go range on %d cases; first: %s", specNat, specNatMsg)
	}
	// map loops: trace validation, native first (validates the spec), then the iterator
	validated := 0
	if natTrace.Len() > 0 {
		ok, _ := validateTrace(c, "Trace_Map", "Trace_Map.cfg", natTrace.String())
		if !ok {
			vf.Machinery("Trace_Map rejects the trace of NATIVE Go map loops: the specification is stricter than Go")
		}
		text := realTrace.String()
		for round := 0; round < 20 && text != ""; round++ {
			ok, depth := validateTrace(c, "Trace_Map", "Trace_Map.cfg", text)
			if ok {
				break
			}
			// the line after the longest accepted prefix belongs to the offending scenario
			lines := strings.Split(strings.TrimRight(text, "\n"), "\n")
			bad := depth // 0-based index of the first rejected line
			if bad >= len(lines) {
				bad = len(lines) - 1
			}
			start := bad
			for start > 0 && !strings.Contains(lines[start], `"op":"reset"`) {
				start--
			}
			end := bad + 1
			for end < len(lines) && !strings.Contains(lines[end], `"op":"reset"`) {
				end++
			}
			c.Violation(J{"kind": "map", "events": lines[start:end], "rejected_at": lines[bad]},
				fmt.Sprintf("map iterator loop is not a behaviour of Go's range over a map: rejected at event %s of scenario %s", lines[bad], vf.Trunc(strings.Join(lines[start:end], " "), 500)))
			text = strings.Join(append(append([]string{}, lines[:start]...), lines[end:]...), "\n")
			if text != "" {
				text += "\n"
			}
		}
		validated = len(realScen)
		// binding self-test: a trace in which one key is produced twice must be rejected
		bad := `{"op":"reset","keys":[1,2],"nilval":-2}` + "\n" + `{"op":"visit","k":1,"v":10}` + "\n" + `{"op":"visit","k":1,"v":10}` + "\n" + `{"op":"end","k":0,"v":0}` + "\n"
		if ok, _ := validateTrace(c, "Trace_Map", "Trace_Map.cfg", bad); ok {
			vf.Machinery("binding self-test failed: Trace_Map accepts a trace that produces a key twice")
		}
	}
	c.Note("C10 cases by kind: %v; map scenarios validated as traces: native %d accepted, iterator %d", byKind, byKind["map"], validated)
	c.Cov["states"] = res.Distinct
	c.Cov["transitions"] = res.Generated
	c.Cov["traces_validated_against_impl"] = int64(len(cases))
	c.Cov["evaluations"] = int64(len(cases))
	c.Cov["distinct_nontrivial"] = int64(len(nontrivial))
	c.Cov["rule"] = "every byte string up to MaxLen over a 16-byte boundary alphabet + random strings of length 5..64 (seeded), ints -1..4, slices/channels up to 3 elements with every interleaving of up to MaxMuts mutations, map scenarios (<=3 keys incl. nil interface key, nil value, <=2 delete/insert mutations at the first visits); non-trivial = multi-event loops / scenarios with mutations"
	c.Cov["exhaustive"] = true
	c.Cov["bounds"] = consts
	c.Assumptions = append(c.Assumptions, "RangeSem.tla / Trace_Map.tla are validated against native Go range loops on every case of this run (disagreement = exit 2)")
}

// validateTrace runs a Trace_* module on an ndjson trace; returns acceptance and
// the length of the longest accepted prefix (number of consumed lines).
func validateTrace(c *vf.Check, module, cfg, trace string) (bool, int) {
	f := filepath.Join(c.S.Sub("trace"), "trace.ndjson")
	vf.Must(os.WriteFile(f, []byte(trace), 0o644))
	res := c.S.RunTLC(vf.TLCRun{Module: module, Cfg: cfg, Env: []string{"VERIF_TRACE=" + f}, Workers: 1, Timeout: 10 * time.Minute})
	if res.Completed && res.Violated == "" {
		return true, res.Depth - 1
	}
	if !strings.Contains(res.Violated+res.Tail, "TraceAccepted") {
		vf.Machinery("trace validation with %s failed for another reason than rejection:\n%s", module, res.Tail)
	}
	return false, res.Depth - 1
}
