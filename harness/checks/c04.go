package checks

import (
	"encoding/json"
	"fmt"
	"path/filepath"
	"strings"
	"time"

	rt "verif/harness/rtsrc"
	"verif/harness/vf"
)

// C04: range loops inside generators behave like Go's range statement.
//
// Part 1 (equality): family F_range of MC_Src.tla -- every collection kind
// (string with multi-byte and invalid bytes, slice, array, int, channel) x every
// variable form (:= / = / blank / omitted) x range expression as variable or as a
// call (evaluated once) x body shapes (yield of key / value, mutation of the
// collection, guarded break / continue, nesting, inside a closure) through the
// real compiler, compared with CoSource + RangeSem and cross-checked natively.
// Part 2 (trace validation): map range loops inside generators, with delete /
// insert during the loop and nil interface keys / values; the recorder log of the
// compiled generator is turned into a Trace_Map trace and validated by TLC.
func C04(c *vf.Check) {
	runFam(c, famSpec{id: "C04", fam: tier(c, "range", "rangex"), name: "F_range", sizeQ: "2", sizeT: "2", tapeQ: "2", tapeT: "2", callsQ: 7, callsT: 8,
		keys: fullKeys, budget: 60, flags: []string{"KF03b"},
		rule:   "part 1: every program of F_range up to MaxSize (range header: kind x variable form x expression as variable/call; every body starts by observing key and value; body statements: yield key / value, mutations of the collections, guarded break / continue, nested ranges; the same loop inside a closure when it does not yield; final observation of the function-level variables assigned by `=` loops) x every tape; part 2: map-range generator scenarios validated as traces; non-trivial as in C01",
		assume: []string{"collections: s []int{10,20,30} cap 4, arr [3]int, str \"a\\u00e9\\xffz\", n 3, closed buffered channel; maps: <=3 keys incl. nil interface key, nil value"}})
	mapRangeInGenerators(c)
}

const mapGenDriverSrc = `package main

import (
	"fmt"

	"github.com/goghcrow/go-co/seq"
	"scratch/rt"
//IMPORTS
)

var genAll = map[int]func(*rt.Rec, int, int) seq.Iterator[int]{}

var _ = fmt.Sprint

type In struct {
	Idx int ` + "`json:\"idx\"`" + `
}
type Out struct {
	Log    [][]any ` + "`json:\"log\"`" + `
	Yields []int   ` + "`json:\"yields\"`" + `
	Panic  string  ` + "`json:\"panic\"`" + `
}

func main() {
//REGISTER
	serve(func(in In) (out Out) {
		r := rt.NewRec(nil, 500)
		defer func() {
			if p := recover(); p != nil {
				out.Panic = rt.PanicStr(p)
			}
			out.Log = r.Log
		}()
		it := genAll[in.Idx](r, 0, 2)
		for it.MoveNext() {
			out.Yields = append(out.Yields, it.Current())
			if len(out.Yields) > 64 {
				panic("runaway loop")
			}
		}
		return
	})
}
`

func mapRangeInGenerators(c *vf.Check) {
	var scen []J
	res := c.S.RunTLC(vf.TLCRun{Module: "MC_Range", Cfg: "MC_Range.cfg", Consts: map[string]string{"MaxLen": "0", "MaxInt": "0", "MaxElems": "0", "MaxMuts": "0"}, Timeout: 10 * time.Minute,
		OnCase: func(raw []byte) {
			var rc rangeCase
			vf.Must(json.Unmarshal(raw, &rc))
			if rc.Kind == "map" {
				scen = append(scen, obj(rc.Inp))
			}
		}})
	res.MustComplete("MC_Range(map scenarios)")
	every := tier(c, 32, 4)
	var sel []J
	for i, s := range scen {
		if (i+int(c.Seed))%every == 0 {
			sel = append(sel, s)
		}
	}
	dir := c.S.Sub("mapgen")
	c.S.WriteModule(dir, "scratch")
	writeFile(filepath.Join(dir, "rt", "rt.go"), rt.Source)
	writeFile(filepath.Join(dir, "common.go"), drvCommon)
	gen := func(i int, s J) string {
		var b strings.Builder
		nilval := num(s["nilval"])
		fmt.Fprintf(&b, "func M%d(r *rt.Rec, a, b int) Iter[int] {\n\tm := map[any]any{}\n", i)
		for _, k := range arr(s["keys"]) {
			fmt.Fprintf(&b, "\tm[rt.MK(%d)] = rt.MV(%d, %d)\n", num(k), num(k), nilval)
		}
		b.WriteString("\tvisits := 0\n\tr.E(1, 0, 0)\n\tfor k, v := range m {\n\t\tvisits++\n\t\tr.E(2, rt.UK(k), rt.UV(v))\n\t\tYield(rt.UK(k))\n")
		for _, mu := range arr(s["script"]) {
			mm := obj(mu)
			if mm["op"] == "delete" {
				fmt.Fprintf(&b, "\t\tif visits == %d {\n\t\t\tdelete(m, rt.MK(%d))\n\t\t\tr.E(3, %d, 0)\n\t\t}\n", num(mm["at"]), num(mm["k"]), num(mm["k"]))
			} else {
				fmt.Fprintf(&b, "\t\tif visits == %d {\n\t\t\tm[rt.MK(%d)] = rt.MV(%d, %d)\n\t\t\tr.E(4, %d, 0)\n\t\t}\n", num(mm["at"]), num(mm["k"]), num(mm["k"]), nilval, num(mm["k"]))
			}
		}
		b.WriteString("\t}\n\tr.E(5, 0, 0)\n\treturn nil\n}\n")
		return b.String()
	}
	hdr := func(pkg string) string {
		return "//go:build co\n\npackage " + pkg + "\n\nimport (\n\t. \"github.com/goghcrow/go-co\"\n\t\"scratch/rt\"\n)\n\nvar _ = rt.Y\nvar _ Iter[int]\n\n"
	}
	status, npk, runs := compileUnits(c, dir, unitSpec{N: len(sel), PerPkg: 40, Hdr: hdr,
		File: func(i int) string { return gen(i, sel[i]) },
		All: func(pkg string, live []int) string {
			var b strings.Builder
			b.WriteString("var All = map[int]func(*rt.Rec, int, int) Iter[int]{\n")
			for _, i := range live {
				fmt.Fprintf(&b, "\t%d: M%d,\n", i, i)
			}
			b.WriteString("}\n")
			return b.String()
		}})
	for i, st := range status {
		if st != "" {
			c.Violation(J{"scenario": sel[i], "status": st, "source": gen(i, sel[i])}, fmt.Sprintf("the compiler fails on a generator ranging over a map: %s\n%s", st, gen(i, sel[i])))
		}
	}
	var imp, reg strings.Builder
	for pk := 0; pk < npk; pk++ {
		fmt.Fprintf(&imp, "\tgen%03d \"scratch/gen%03d\"\n", pk, pk)
		fmt.Fprintf(&reg, "\tfor k, v := range gen%03d.All {\n\t\tgenAll[k] = v\n\t}\n", pk)
	}
	writeFile(filepath.Join(dir, "main.go"), strings.Replace(strings.Replace(mapGenDriverSrc, "//IMPORTS\n", imp.String(), 1), "//REGISTER\n", reg.String(), 1))
	if out, err := c.S.Run(dir, nil, "go", "build", "-o", "driver", "."); err != nil {
		vf.Machinery("building the map-range driver failed:\n%s", vf.Trunc(out, 3000))
	}
	type job struct {
		Idx int `json:"idx"`
	}
	var jobs []job
	var jobScen []int
	for i := range sel {
		if status[i] == "" {
			jobs = append(jobs, job{i})
			jobScen = append(jobScen, i)
		}
	}
	results := runDriver(c, dir, "./driver", nil, jobs, len(jobs))
	var trace strings.Builder
	nval := 0
	for k, r := range results {
		s := sel[jobScen[k]]
		if r.Status == "notrun" {
			continue
		}
		if r.Status != "ok" {
			c.Violation(J{"scenario": s, "status": r.Status}, fmt.Sprintf("generator ranging over a map did not finish (%s): %s", r.Status, canon(s)))
			continue
		}
		var o struct {
			Log    [][]any `json:"log"`
			Yields []int   `json:"yields"`
			Panic  string  `json:"panic"`
		}
		vf.Must(json.Unmarshal(r.Out, &o))
		if o.Panic != "" {
			c.Violation(J{"scenario": s, "panic": o.Panic, "source": gen(jobScen[k], s)}, fmt.Sprintf("generator ranging over a map panics where Go's range does not: %s: %s", canon(s), o.Panic))
			continue
		}
		var visits []int
		for _, e := range o.Log {
			id, a, b := num(e[1]), num(e[2]), num(e[3])
			var l []byte
			switch id {
			case 1:
				l, _ = json.Marshal(J{"op": "reset", "keys": s["keys"], "nilval": s["nilval"]})
			case 2:
				l, _ = json.Marshal(J{"op": "visit", "k": a, "v": b})
				visits = append(visits, a)
			case 3:
				l, _ = json.Marshal(J{"op": "delete", "k": a, "v": 0})
			case 4:
				l, _ = json.Marshal(J{"op": "insert", "k": a, "v": 0})
			case 5:
				l, _ = json.Marshal(J{"op": "end", "k": 0, "v": 0})
			}
			trace.Write(l)
			trace.WriteByte('\n')
		}
		if canon(visits) != canon(o.Yields) && !(len(visits) == 0 && len(o.Yields) == 0) {
			c.Violation(J{"scenario": s, "visits": visits, "yields": o.Yields}, fmt.Sprintf("generator ranging over a map: yielded keys %v differ from the visited keys %v (%s)", o.Yields, visits, canon(s)))
		}
		nval++
	}
	text := trace.String()
	for round := 0; round < 20 && text != ""; round++ {
		ok, depth := validateTrace(c, "Trace_Map", "Trace_Map.cfg", text)
		if ok {
			break
		}
		lines := strings.Split(strings.TrimRight(text, "\n"), "\n")
		bad := depth
		if bad >= len(lines) {
			bad = len(lines) - 1
		}
		start := bad
		for start > 0 && !strings.Contains(lines[start], `"op":"reset"`) {
			start--
		}
		end := bad + 1
		for end < len(lines) && !strings.Contains(lines[end], `"op":"reset"`) {
			end++
		}
		c.Violation(J{"kind": "map range in generator", "events": lines[start:end], "rejected_at": lines[bad]},
			fmt.Sprintf("map range loop inside a compiled generator is not a behaviour of Go's range: rejected at event %s of %s", lines[bad], vf.Trunc(strings.Join(lines[start:end], " "), 500)))
		text = strings.Join(append(append([]string{}, lines[:start]...), lines[end:]...), "\n")
		if text != "" {
			text += "\n"
		}
	}
	c.Add("traces_validated_against_impl", int64(nval))
	c.Add("evaluations", int64(nval))
	c.Add("distinct_nontrivial", int64(nval))
	c.Add("compiler_runs", int64(runs))
	c.Note("C04 part 2: %d map-range generator scenarios compiled, drained and validated as traces against Trace_Map.tla", nval)
}
