package checks

import (
	"encoding/json"
	"fmt"
	"path/filepath"
	"strings"
	"time"

	rt "verif/harness/rtsrc"
	"verif/harness/vf"
)

const schedDriverSrc = `package main

import (
	"fmt"
	"sync"

	"scratch/gen"
	"scratch/nat"
	"scratch/rt"
)

type It interface {
	MoveNext() bool
	Current() int
}
var _ = fmt.Sprint

type In struct {
	Tup    []int    ` + "`json:\"tup\"`" + `
	Sched  []int    ` + "`json:\"sched\"`" + `
	Tapes  [][]bool ` + "`json:\"tapes\"`" + `
	M      int      ` + "`json:\"m\"`" + `
	Budget int      ` + "`json:\"budget\"`" + `
}
type Ev struct {
	Ok    bool    ` + "`json:\"ok\"`" + `
	Cur   int     ` + "`json:\"cur\"`" + `
	Panic string  ` + "`json:\"panic\"`" + `
	Effs  [][]any ` + "`json:\"effs\"`" + `
}
type Out struct {
	Real [][]Ev ` + "`json:\"real\"`" + ` // interleaved on one goroutine, per iterator
	Par  [][]Ev ` + "`json:\"par\"`" + `  // one goroutine per iterator
	Nat  [][]Ev ` + "`json:\"nat\"`" + `
	Extra []string ` + "`json:\"extra\"`" + ` // the bystander iterator of another element type, consumed concurrently
}

func step(it It, r *rt.Rec) (ev Ev) {
	n := len(r.Log)
	defer func() {
		if p := recover(); p != nil {
			ev.Panic = rt.PanicStr(p)
		}
		ev.Effs = append([][]any{}, r.Log[n:]...)
		ev.Cur = it.Current()
	}()
	ev.Ok = it.MoveNext()
	return
}

func mkAll(in In, native bool) ([]It, []*rt.Rec) {
	its := make([]It, len(in.Tup))
	recs := make([]*rt.Rec, len(in.Tup))
	for j, g := range in.Tup {
		recs[j] = rt.NewRec(in.Tapes[j], in.Budget)
		if native {
			its[j] = nat.All[g-1](recs[j], j+1, 2)
		} else {
			its[j] = gen.All[g-1](recs[j], j+1, 2)
		}
	}
	return its, recs
}

func interleaved(in In, native bool) [][]Ev {
	its, recs := mkAll(in, native) // all iterators are created first
	out := make([][]Ev, len(its))
	dead := make([]bool, len(its))
	for _, j1 := range in.Sched {
		j := j1 - 1
		if dead[j] {
			continue
		}
		ev := step(its[j], recs[j])
		out[j] = append(out[j], ev)
		dead[j] = ev.Panic != ""
	}
	for _, it := range its {
		if s, ok := it.(interface{ Stop() }); ok {
			func() { defer func() { recover() }(); s.Stop() }()
		}
	}
	return out
}

func parallel(in In) ([][]Ev, []string) {
	its, recs := mkAll(in, false)
	out := make([][]Ev, len(its))
	var wg sync.WaitGroup
	// a bystander: one more goroutine consumes a generator of ANOTHER element type (another instantiation of
	// the generic runtime) at the same time; it must produce its solo sequence and must not race either
	var extra []string
	wg.Add(1)
	go func() {
		defer wg.Done()
		defer func() {
			if p := recover(); p != nil {
				extra = append(extra, "panic: "+rt.PanicStr(p))
			}
		}()
		x := gen.GX(5)
		for n := 0; n < 10 && x.MoveNext(); n++ {
			extra = append(extra, x.Current())
		}
	}()
	for j := range its {
		wg.Add(1)
		go func(j int) {
			defer wg.Done()
			for c := 0; c < in.M; c++ {
				ev := step(its[j], recs[j])
				out[j] = append(out[j], ev)
				if ev.Panic != "" {
					break
				}
			}
		}(j)
	}
	wg.Wait()
	return out, extra
}

func main() {
	serve(func(in In) (out Out) {
		// the concurrent phase comes first: in the first job of a process nothing has warmed up
		// whatever the runtime may cache
		out.Par, out.Extra = parallel(in)
		out.Real = interleaved(in, false)
		out.Nat = interleaved(in, true)
		return
	})
}
`

// the bystander of the concurrent phase: element type string, loop with continue / break, delegation
const bystanderCo = `
func gx1(n int) Iter[string] {
	for i := 0; i < n; i++ {
		if i%2 == 1 {
			continue
		}
		Yield("x" + string(rune('0'+i)))
	}
	return nil
}
func GX(n int) Iter[string] {
	Yield("s")
	YieldFrom(gx1(n))
	for {
		Yield("e")
		break
	}
	return nil
}
`

var bystanderExpected = []string{"s", "x0", "x2", "x4", "e"}

// C14: iterators are independent under any interleaving and across goroutines.
func C14(c *vf.Check) {
	type scase struct {
		Tup   []int `json:"tup"`
		Sched []int `json:"sched"`
		Obs   []any `json:"obs"`
		Gens  []any `json:"gens"`
		Tapes []any `json:"tapes"`
	}
	var cases []scase
	var states, trans int64
	ks := tier(c, []string{"2", "3"}, []string{"2", "3"})
	ms := tier(c, []string{"3", "2"}, []string{"4", "3"})
	for i := range ks {
		res := c.S.RunTLC(vf.TLCRun{Module: "MC_Sched", Cfg: "MC_Sched.cfg", Consts: map[string]string{"K": ks[i], "M": ms[i]}, Timeout: 60 * time.Minute,
			OnCase: func(raw []byte) {
				var sc scase
				vf.Must(json.Unmarshal(raw, &sc))
				cases = append(cases, sc)
			}})
		res.MustComplete("MC_Sched")
		states += res.Distinct
		trans += res.Generated
		c.Note("TLC MC_Sched K=%s M=%s: %d states, %d complete schedules so far; invariant SoloAgree holds (%.0fs)", ks[i], ms[i], res.Distinct, len(cases), res.Wall.Seconds())
	}
	if len(cases) == 0 {
		vf.Machinery("no schedules")
	}
	gens := cases[0].Gens

	dir := c.S.Sub("sched")
	c.S.WriteModule(dir, "scratch")
	writeFile(filepath.Join(dir, "rt", "rt.go"), rt.Source)
	writeFile(filepath.Join(dir, "common.go"), drvCommon)
	writeFile(filepath.Join(dir, "main.go"), schedDriverSrc)
	coR, natR := &srcRenderer{md: coMode}, &srcRenderer{md: natMode}
	var co, na strings.Builder
	co.WriteString("//go:build co\n\npackage gen\n\nimport (\n\t. \"github.com/goghcrow/go-co\"\n\t\"scratch/rt\"\n)\n\nvar _ = rt.Y\n\nvar All = []func(*rt.Rec, int, int) Iter[int]{")
	na.WriteString("package nat\n\nimport \"scratch/rt\"\n\nvar All = []func(*rt.Rec, int, int) *rt.NIter{")
	for i := range gens {
		fmt.Fprintf(&co, "G%d, ", i)
		fmt.Fprintf(&na, "G%d, ", i)
	}
	co.WriteString("}\n" + delegCo + bystanderCo)
	na.WriteString("}\n" + delegNat)
	for i, g := range gens {
		co.WriteString(coR.genFunc(fmt.Sprintf("G%d", i), arr(g), "needed") + "\n")
		na.WriteString(natR.genFunc(fmt.Sprintf("G%d", i), arr(g), "needed") + "\n")
	}
	writeFile(filepath.Join(dir, "gen", "gen_co.go"), co.String())
	writeFile(filepath.Join(dir, "nat", "nat.go"), na.String())
	if out, err := c.S.Run(dir, nil, "go", "build", "-tags", "co", "./gen/"); err != nil {
		vf.Machinery("rendered generators do not build under -tags co:\n%s", vf.Trunc(out, 2000))
	}
	cogen := buildCogen(c)
	if out, err := c.S.Run(dir, nil, cogen, "gogen", filepath.Join(dir, "gen")); err != nil {
		vf.Machinery("the compiler failed on the schedule family generators (C11's business):\n%s", vf.Trunc(out, 2000))
	}
	if out, err := c.S.Run(dir, nil, "go", "build", "-race", "-o", "driver", "."); err != nil {
		vf.Machinery("building the schedule driver with -race failed:\n%s", vf.Trunc(out, 3000))
	}
	type job struct {
		Tup    []int    `json:"tup"`
		Sched  []int    `json:"sched"`
		Tapes  [][]bool `json:"tapes"`
		M      int      `json:"m"`
		Budget int      `json:"budget"`
	}
	var jobs []job
	for _, sc := range cases {
		var tapes [][]bool
		for _, t := range sc.Tapes {
			tapes = append(tapes, boolTape(t))
		}
		m := 0
		for _, o := range sc.Obs {
			if len(arr(o)) > m {
				m = len(arr(o))
			}
		}
		jobs = append(jobs, job{Tup: sc.Tup, Sched: sc.Sched, Tapes: tapes, M: m, Budget: 40})
	}
	results := runDriver(c, dir, "./driver", []string{"GORACE=halt_on_error=1 exitcode=66"}, jobs, len(jobs))
	specNat, specNatMsg := 0, ""
	nontrivial := map[string]bool{}
	for i, sc := range cases {
		r := results[i]
		what := fmt.Sprintf("iterators of generators %v advanced in the order %v", sc.Tup, sc.Sched)
		if r.Status == "notrun" {
			continue
		}
		if r.Status != "ok" {
			detail := r.Crash
			kind := "the run did not finish (" + r.Status + ")"
			if strings.Contains(detail, "DATA RACE") {
				kind = "the race detector reports a data race between iterators consumed on different goroutines"
			}
			c.Violation(J{"tup": sc.Tup, "sched": sc.Sched, "status": r.Status, "detail": detail}, what+": "+kind+"\n"+vf.Trunc(detail, 600))
			continue
		}
		var o struct {
			Real  [][]any  `json:"real"`
			Par   [][]any  `json:"par"`
			Nat   [][]any  `json:"nat"`
			Extra []string `json:"extra"`
		}
		vf.Must(json.Unmarshal(r.Out, &o))
		if fmt.Sprint(o.Extra) != fmt.Sprint(bystanderExpected) {
			c.Violation(J{"tup": sc.Tup, "mode": "one goroutine per iterator + bystander of element type string", "expected": bystanderExpected, "actual": o.Extra},
				fmt.Sprintf("generators %v consumed on separate goroutines: the bystander iterator (element type string) consumed at the same time does not produce its solo sequence\n  solo: %v\n  concurrent: %v", sc.Tup, bystanderExpected, o.Extra))
		}
		for j := range sc.Tup {
			exp := normEvents(arr(sc.Obs[j]), srcKeys...)
			if j >= len(o.Nat) || normEvents(o.Nat[j], srcKeys...) != exp {
				specNat++
				specNatMsg = fmt.Sprintf("%s iterator %d\n  spec: %s\n  native: %v", what, j+1, exp, o.Nat)
				continue
			}
			if got := normEvents(o.Real[j], srcKeys...); got != exp {
				c.Violation(J{"tup": sc.Tup, "sched": sc.Sched, "iterator": j + 1, "expected": json.RawMessage(exp), "actual": got},
					fmt.Sprintf("%s: iterator %d does not produce its solo sequence\n  solo (spec): %s\n  interleaved: %s", what, j+1, exp, got))
			}
			if got := normEvents(o.Par[j], srcKeys...); got != exp {
				c.Violation(J{"tup": sc.Tup, "mode": "one goroutine per iterator", "iterator": j + 1, "expected": json.RawMessage(exp), "actual": got},
					fmt.Sprintf("generators %v consumed on separate goroutines: iterator %d does not produce its solo sequence\n  solo (spec): %s\n  concurrent:  %s", sc.Tup, j+1, exp, got))
			}
		}
		distinct := map[int]bool{}
		for _, s := range sc.Sched {
			distinct[s] = true
		}
		if len(distinct) > 1 {
			nontrivial[canon(sc.Tup)+canon(sc.Sched)] = true
		}
		if i%977 == 5 {
			c.Sample(J{"generators": sc.Tup, "schedule": sc.Sched, "per_iterator_expected": sc.Obs})
		}
	}
	if specNat > 0 {
		vf.Machinery("specification disagrees with native Go on %d iterators; e.g. %s", specNat, specNatMsg)
	}
	c.Cov["states"] = states
	c.Cov["transitions"] = trans
	c.Cov["traces_validated_against_impl"] = int64(len(cases))
	c.Cov["evaluations"] = int64(len(cases))
	c.Cov["distinct_nontrivial"] = int64(len(nontrivial))
	c.Cov["rule"] = "every tuple of K generators out of 3 (same function several times, different functions, recursive delegation, closure state) x EVERY complete interleaving with M advances each, all iterators created first; each schedule replayed on one goroutine, and each tuple consumed with one goroutine per iterator under the race detector (GORACE halt_on_error), together with a bystander goroutine consuming a generator of another element type (string), the concurrent phase first in every job; non-trivial = schedule that actually interleaves"
	c.Cov["exhaustive"] = true
	c.Cov["bounds"] = J{"K": ks, "M": ms}
	c.Assumptions = append(c.Assumptions, "data races are decided by Go's race detector during the replay: TLA+ has no Go memory model", "each iterator has its own recorder; shared state would have to live in go-co's runtime or generated code")

	// iterators held by ONE generator and created inside its steps: F_indep of MC_Src.tla
	rule, bounds := c.Cov["rule"], c.Cov["bounds"]
	runFam(c, famSpec{id: "C14", fam: "indep", name: "F_indep", sizeQ: "4", sizeT: "4", tapeQ: "1", tapeT: "2", callsQ: 6, callsT: 8,
		keys: fullKeys, deleg: true, budget: 40, rule: "F_indep"})
	// iterators handed OUT by a generator of generators, kept and advanced round-robin by the consumer
	runFam(c, famSpec{id: "C14", fam: "gg", name: "F_gg", sizeQ: "3", sizeT: "4", tapeQ: "2", tapeT: "2", callsQ: 8, callsT: 10,
		keys: fullKeys, deleg: true, budget: 60, opts: srcOpts{GG: true}, rule: "F_gg"})
	c.Cov["rule"] = fmt.Sprint(rule) + "; plus F_gg: every generator of GENERATORS up to MaxSize (yields fresh instances of two delegates, in loops, as post statement), consumed by a flattening round-robin consumer that keeps every delivered handle and advances all of them, exhausted ones included, in every cycle (spec: GGStep); plus F_indep: every generator up to MaxSize that holds a local iterator `it` (pulled by hand, also after exhaustion, or delegated to), delegates created by YieldFrom and a second iterator created in a later step: an exhausted iterator stays exhausted and a live one is not disturbed, whatever else is created meanwhile"
	c.Cov["bounds"] = J{"MC_Sched": bounds, "F_indep/F_gg": c.Cov["bounds"]}
}
