package checks

import (
	"encoding/json"
	"fmt"
	"os"
	"path/filepath"
	"strings"
	"time"

	"verif/harness/vf"
)

// C07: the optimisation pass never changes observable behaviour.
//
// The verif hook keeps the unoptimised stage (<dst>_tmp). Every program of the
// families is compiled once; the stage copy and the optimised output are both
// built and run on the same drivers; the verdict is trace(stage) != trace(out),
// or "out does not build while the stage builds". The specification's trace says
// which side is wrong (reported in the summary).
func C07(c *vf.Check) {
	total, compared, diff := 0, 0, 0
	nontrivial := map[string]bool{}
	var states, trans int64
	runOne := func(fam, size, tape string, calls int, o srcOpts) {
		consts := map[string]string{"Family": `"` + fam + `"`, "MaxSize": size, "TapeLen": tape, "MaxCalls": itoa(calls), "Budget": "40", "OpenFlags": "{}", "Lazy": "FALSE"}
		cases, res := collectSrcCases(c, "MC_Src", "MC_Src.cfg", consts, 60*time.Minute)
		states += res.Distinct
		trans += res.Generated
		o.Stage = true
		o.Budget = 40
		run := runSrcFamilyCalls(c, cases, o)
		// (a) output that does not build although the unoptimised stage does
		groups := compileFailures(run)
		for _, k := range sortedKeys(groups) {
			v := groups[k]
			p := v[0]
			if strings.HasPrefix(run.Status[p], "build:") && stageBuildsAlone(c, arr(run.Progs[p]), o) {
				src := renderCo(arr(run.Progs[p]))
				c.Violation(J{"family": fam, "prog": run.Progs[p], "status": run.Status[p], "source": src},
					fmt.Sprintf("[%s] the optimised output does not build although the unoptimised stage does (%d programs): %s\n%s", fam, len(v), run.Status[p], src))
				for j := 1; j < len(v); j++ {
					c.Violation(nil, "")
				}
				diff += len(v)
			} else {
				c.Note("not compared (the rewriter itself fails; C11's business): %q programs=%d", k, len(v))
			}
		}
		// (b) stage vs output on every case; spec = native guards the oracle used in the summary
		specNat, noStage := 0, 0
		for i, sc := range cases {
			o := &run.Outs[i]
			p := run.ProgOf[i]
			if o.Status != "ok" || run.Status[p] != "" {
				continue
			}
			exp := normEvents(sc.Ideal, srcKeys...)
			if describeOut(srcKeys, o.Nat, o.NatNew, 0) != exp {
				specNat++
				continue
			}
			if !o.HasTmp {
				noStage++
				continue
			}
			compared++
			tmp := normEvents(o.Tmp, srcKeys...)
			out := normEvents(o.Real, srcKeys...)
			if len(sc.Ideal) > 0 && len(arr(obj(sc.Ideal[0])["effs"])) > 0 {
				nontrivial[canon(sc.Prog)+canon(sc.Tape)] = true
			}
			if tmp != out {
				diff++
				who := "neither equals the specification"
				if tmp == exp {
					who = "the unoptimised stage equals the specification, the optimised output does not"
				} else if out == exp {
					who = "the optimised output equals the specification, the unoptimised stage does not"
				}
				src := renderCo(sc.Prog)
				c.Violation(J{"family": fam, "prog": sc.Prog, "tape": sc.Tape, "stage": json.RawMessage(tmp), "optimised": json.RawMessage(out), "spec": json.RawMessage(exp), "source": src},
					fmt.Sprintf("[%s] optimised and unoptimised code behave differently (%s)\n%s tape=%s\n  stage:     %s\n  optimised: %s", fam, who, src, canon(sc.Tape), tmp, out))
			} else if compared%3001 == 5 {
				c.Sample(J{"family": fam, "source": renderCo(sc.Prog), "tape": sc.Tape, "both": json.RawMessage(out)})
			}
		}
		if specNat > 0 {
			vf.Machinery("specification disagrees with native Go on %d cases of family %s", specNat, fam)
		}
		total += len(run.Progs)
		c.Note("C07 [%s size<=%s]: %d programs, %d cases; stage missing for %d cases", fam, size, len(run.Progs), len(cases), noStage)
		if noStage > 0 {
			// nothing to compare the optimised output with: the comparison would be vacuous
			vf.Machinery("family %s: the unoptimised stage is missing (it did not build in the harness) for %d cases of programs whose output builds", fam, noStage)
		}
		c.Add("compiler_runs", int64(run.CompilerRuns))
	}
	runOne("opt", "3", tier(c, "2", "3"), 5, srcOpts{Opt: true})
	runOne("optx", tier(c, "2", "3"), "2", 4, srcOpts{Opt: true})
	runOne("expr", tier(c, "2", "3"), "2", 4, srcOpts{})
	runOne("box", tier(c, "3", "4"), "2", 5, srcOpts{Box: true})
	runOne("box", tier(c, "3", "4"), "2", 5, srcOpts{Box: true, BoxVal: true})
	runOne("box", tier(c, "3", "4"), "2", 5, srcOpts{Box: true, BoxMap: true})
	runOne("ctl", tier(c, "2", "3"), tier(c, "2", "3"), 5, srcOpts{})
	c.Cov["programs"] = int64(total)
	c.Cov["disagreements_checked"] = int64(diff)
	c.Cov["states"] = states
	c.Cov["transitions"] = trans
	c.Cov["traces_validated_against_impl"] = int64(compared)
	c.Cov["evaluations"] = int64(compared)
	c.Cov["distinct_nontrivial"] = int64(len(nontrivial))
	c.Cov["samples_note"] = "see samples"
	c.Cov["rule"] = "every program of F_opt (closures of eta shape: function variable as loop condition reassigned in the body, method value with reassigned receiver, wrappers of a package function / generic instance / builtin / conversion), F_expr (expression shapes of yielded values), F_box (yields of freshly allocated objects &box{..}, element type *box: a literal-looking composite is not a literal) and F_ctl up to the size bound x tapes: the unoptimised stage (kept by the verif hook) and the optimised output are built and run on the same drivers and their per-call traces (values + effect interleaving) compared; an output that does not build while the stage builds is a violation too"
	c.Cov["exhaustive"] = true
	c.Assumptions = append(c.Assumptions, "the stage copy still imports the API that nothing uses after rewriting (import clean-up is part of the optimiser): exactly the imports `go build` reports as unused are stripped from the COPY of the stage; the optimised output is never touched")
}

// stageBuildsAlone compiles one program alone and reports whether its unoptimised stage builds.
func stageBuildsAlone(c *vf.Check, prog []any, o srcOpts) bool {
	dir := c.S.Sub("alone")
	c.S.WriteModule(dir, "scratch")
	rtSrc, _ := os.ReadFile(filepath.Join(vf.VerifDir(), "harness", "rtsrc", "rt.go"))
	writeFile(filepath.Join(dir, "rt", "rt.go"), string(rtSrc))
	d := filepath.Join(dir, "gen000")
	src := "//go:build co\n\npackage gen000\n\nimport (\n\t. \"github.com/goghcrow/go-co\"\n\t\"scratch/rt\"\n)\n\nvar _ = rt.Y\nvar _ Iter[int]\n\n" +
		(&srcRenderer{md: coMode}).genFunc("G0", prog, "needed") + optDecls
	writeFile(filepath.Join(d, "p0_co.go"), src)
	cogen := buildCogen(c)
	if _, err := c.S.Run(dir, []string{"GOCO_VERIF_STAGE_DIR=" + d + "stage"}, cogen, "gogen", d); err != nil {
		return false
	}
	prepareStage(c, dir, d)
	_, err := os.Stat(d + "stage")
	return err == nil
}
