package checks

import (
	"encoding/json"
	"fmt"
	"time"

	"verif/harness/vf"
)

// C09: iterator protocol. TLC explores every history over MoveNext / Current /
// Send / Result up to the bound on the generator family (invariants, the
// permanence action property, agreement with the structured reference and
// refinement of the abstract protocol machine); Apalache discharges the
// inductive invariant of the abstract machine; every history is replayed on the
// real generator with the return value of every call compared.
func C09(c *vf.Check) {
	consts := map[string]string{"MaxOps": tier(c, "5", "6")}
	cases, res := collectTermCases(c, "MC_Hist", "MC_Hist.cfg", consts, tier(c, 10*time.Minute, 90*time.Minute))
	c.Note("TLC MC_Hist: %d states, %d histories emitted; Inv, RefAgree, Permanent, refinement of GenProtocol hold (%.0fs)", res.Distinct, res.Cases, res.Wall.Seconds())

	ok0, out0 := c.S.RunApalache("GenProtocol", "--init=Init", "--inv=IndInv", "--length=0")
	ok1, out1 := c.S.RunApalache("GenProtocol", "--init=IndInv", "--inv=IndInv", "--length=1")
	if !ok0 || !ok1 {
		vf.Machinery("Apalache did not discharge the inductive invariant of GenProtocol:\n%s\n%s", vf.Trunc(out0, 1500), vf.Trunc(out1, 1500))
	}
	c.Note("Apalache: GenProtocol IndInv is inductive (Init => IndInv, IndInv /\\ Next => IndInv'): 2/2 obligations")

	terms := newUniq()
	var jobs []termJob
	for _, tc := range cases {
		ops := make([]termOp, 0, len(tc.Ops))
		for _, o := range tc.Ops {
			m := obj(o)
			ops = append(ops, termOp{Op: str(m["op"]), Arg: num(m["arg"])})
		}
		jobs = append(jobs, termJob{Idx: terms.add(tc.Term), Tape: []bool{}, Budget: 40, Ops: ops})
	}
	outs := runTerms(c, terms.vals, jobs)
	keys := []string{"op", "arg", "ok", "val", "cur", "res", "panic", "effs"}
	nontrivial := map[string]bool{}
	for i, tc := range cases {
		exp := normEvents(tc.Ops, keys...)
		o := outs[i]
		got := ""
		if o.Status == "notrun" {
			continue
		}
		if o.Status != "ok" {
			got = "driver status: " + o.Status + " " + vf.Trunc(o.Crash, 400)
		} else {
			got = normEvents(o.Evs, keys...)
			for _, e := range o.Evs {
				m := obj(e)
				if num(m["cur"]) != num(m["cur2"]) {
					got += " Current unstable"
				}
			}
			if o.New != 0 {
				got += fmt.Sprintf(" construction wrote %d recorder entries", o.New)
			}
		}
		if exp != got {
			c.Violation(J{"family": "H_hist", "term": tc.Term, "ops": tc.Ops, "expected": json.RawMessage(exp), "actual": got, "go": renderTerm(tc.Term)},
				fmt.Sprintf("generator %s\n  spec: %s\n  real: %s", renderTerm(tc.Term), exp, got))
		}
		kinds := map[string]bool{}
		for _, o := range tc.Ops {
			kinds[str(obj(o)["op"])] = true
		}
		if len(kinds) >= 2 {
			nontrivial[canon(tc.Term)+canon(tc.Ops)] = true
		}
		if i%5003 == 11 {
			c.Sample(J{"generator": renderTerm(tc.Term), "history": json.RawMessage(exp)})
		}
	}
	bindingSelfTest(c, "C09", cases[len(cases)/2].Ops, keys)
	c.Cov["states"] = res.Distinct
	c.Cov["transitions"] = res.Generated
	c.Cov["traces_validated_against_impl"] = int64(len(cases))
	c.Cov["evaluations"] = int64(len(cases))
	c.Cov["distinct_nontrivial"] = int64(len(nontrivial))
	c.Cov["obligations"] = 2
	c.Cov["discharged"] = 2
	c.Cov["rule"] = "all words of length MaxOps over {MoveNext, Current, Result, Send 7, Send 8} (prefixes cover shorter ones) x 9 generators; non-trivial = history using at least two different operations"
	c.Cov["exhaustive"] = true
	c.Cov["bounds"] = consts
	c.Assumptions = append(c.Assumptions,
		"Send/Result have no native Go counterpart: the oracle is SeqMachine.tla, cross-checked by TLC against the structured reference (Send(v) = resume the pending yield with v)",
		"Apalache result covers the abstract protocol machine only; TLC checks that SeqMachine refines it within the bound")
}
