package checks

import (
	"encoding/json"
	"fmt"
	"path/filepath"
	"strings"
	"time"

	rt "verif/harness/rtsrc"
	"verif/harness/vf"
)

// consRenderer renders consumer functions (spec/MC_Cons.tla) in go-co and native form.
type consRenderer struct {
	nat    bool
	holder string // var | field | slice | map | closure | param
	gen    string // func | method | generic
}

func (cr *consRenderer) it(n int) string {
	switch cr.holder {
	case "field":
		return []string{"h.a", "h.b"}[n-1]
	case "slice":
		return fmt.Sprintf("its[%d]", n-1)
	case "map":
		return []string{`m["a"]`, `m["b"]`}[n-1]
	case "closure":
		return fmt.Sprintf("get%d()", n)
	}
	return fmt.Sprintf("it%d", n)
}

func (cr *consRenderer) block(ss []any, ind string) string {
	var b strings.Builder
	for _, s := range ss {
		m := obj(s)
		switch m["k"] {
		case "effv":
			fmt.Fprintf(&b, "%sr.E(%d, v, 0)\n", ind, num(m["id"]))
		case "pull":
			it := cr.it(num(m["it"]))
			fmt.Fprintf(&b, "%sif %s.MoveNext() {\n%s\tr.E(%d, %s.Current(), 0)\n%s} else {\n%s\tr.E(%d, -1, 0)\n%s}\n", ind, it, ind, num(m["id"]), it, ind, ind, num(m["id"]), ind)
		case "ifbrk", "ifcnt", "ifret":
			jump := map[string]string{"ifbrk": "break", "ifcnt": "continue", "ifret": "return"}[str(m["k"])]
			fmt.Fprintf(&b, "%sif r.T(%d) {\n%s\t%s\n%s}\n", ind, num(m["id"]), ind, jump, ind)
		case "range":
			it := cr.it(num(m["it"]))
			if cr.nat {
				it += ".All()"
			}
			body := arr(m["body"])
			if m["tok"] == "def" {
				b.WriteString(ind + "for v := range " + it + " {\n")
				switch num(m["sh"]) {
				case 1:
					b.WriteString(ind + "\tv := v + 100\n")
				case 2:
					b.WriteString(ind + "\tg := func() int { return v }\n" + ind + "\tv, w := rt.Two(v+100, 0)\n" + ind + "\tv += g()\n" + ind + "\t_ = w\n")
				}
				b.WriteString(ind + "\t_ = v\n" + cr.block(body, ind+"\t") + ind + "}\n")
			} else {
				hdr := map[string]string{"asg": "for v = range ", "none": "for range ", "blank": "for _ = range "}[str(m["tok"])]
				b.WriteString(ind + hdr + it + " {\n" + cr.block(body, ind+"\t") + ind + "}\n")
			}
		default:
			panic("unknown consumer statement " + canon(m))
		}
	}
	return b.String()
}

func (cr *consRenderer) fn(i int, main []any) string {
	ty := "Iter[int]"
	if cr.nat {
		ty = "*rt.NIter"
	}
	mk1, mk2 := "D2(r, 3, 2)", "D4(r, 1, 2)"
	if !cr.nat {
		switch cr.gen {
		case "method":
			mk1, mk2 = "gens{r}.D2m(3, 2)", "gens{r}.D4m(1, 2)"
		case "generic":
			mk1 = "D2g[int](r, 3, 5, 3, 2)"
		}
	}
	var b strings.Builder
	body := cr.block(main, "\t")
	tail := "\tr.E(99, v, 0)\n"
	switch cr.holder {
	case "param":
		fmt.Fprintf(&b, "func U%d(r *rt.Rec) {\n\tu%d(r, %s, %s)\n}\n\nfunc u%d(r *rt.Rec, it1, it2 %s) {\n\tv := 0\n\t_ = v\n%s%s}\n", i, i, mk1, mk2, i, ty, body, tail)
		return b.String()
	case "field":
		fmt.Fprintf(&b, "func U%d(r *rt.Rec) {\n\th := holder{a: %s, b: %s}\n", i, mk1, mk2)
	case "slice":
		fmt.Fprintf(&b, "func U%d(r *rt.Rec) {\n\tits := []%s{%s, %s}\n", i, ty, mk1, mk2)
	case "map":
		fmt.Fprintf(&b, "func U%d(r *rt.Rec) {\n\tm := map[string]%s{\"a\": %s, \"b\": %s}\n", i, ty, mk1, mk2)
	case "closure":
		fmt.Fprintf(&b, "func U%d(r *rt.Rec) {\n\tx1, x2 := %s, %s\n\tget1 := func() %s { return x1 }\n\tget2 := func() %s { return x2 }\n\t_, _ = get1, get2\n", i, mk1, mk2, ty, ty)
	default:
		fmt.Fprintf(&b, "func U%d(r *rt.Rec) {\n\tit1 := %s\n\tit2 := %s\n\t_, _ = it1, it2\n", i, mk1, mk2)
	}
	b.WriteString("\tv := 0\n\t_ = v\n" + body + tail + "}\n")
	return b.String()
}

const consExtraCo = `
type holder struct{ a, b Iter[int] }
type gens struct{ r *rt.Rec }

func (g gens) D2m(a, b int) Iter[int] { Yield(a); g.r.E(91, a, b); Yield(5); return nil }
func (g gens) D4m(a, b int) Iter[int] {
	if g.r.T(93) {
		YieldFrom(g.D4m(a+1, b))
		Yield(a)
		YieldFrom(g.D4m(a+1, b))
	}
	return nil
}
func D2g[T any](r *rt.Rec, a, five T, an, b int) Iter[T] { Yield(a); r.E(91, an, b); Yield(five); return nil }
`
const consExtraNat = `
type holder struct{ a, b *rt.NIter }
`

const consDriverSrc = `package main

import (
	"fmt"

	"scratch/nat"
	"scratch/rt"
//IMPORTS
)

var _ = fmt.Sprint

type In struct {
	Idx    int    ` + "`json:\"idx\"`" + `
	Tape   []bool ` + "`json:\"tape\"`" + `
	Budget int    ` + "`json:\"budget\"`" + `
}
type Out struct {
	Real      [][]any ` + "`json:\"real\"`" + `
	Nat       [][]any ` + "`json:\"nat\"`" + `
	RealPanic string  ` + "`json:\"realpanic\"`" + `
	NatPanic  string  ` + "`json:\"natpanic\"`" + `
	HasReal   bool    ` + "`json:\"hasreal\"`" + `
}

var genAll = map[int]func(*rt.Rec){}

func run(f func(*rt.Rec), in In) (log [][]any, pn string) {
	r := rt.NewRec(in.Tape, in.Budget)
	defer func() {
		if p := recover(); p != nil {
			pn = rt.PanicStr(p)
		}
		log = r.Log
	}()
	f(r)
	return
}

func main() {
//REGISTER
	serve(func(in In) (out Out) {
		if g, ok := genAll[in.Idx]; ok {
			out.HasReal = true
			out.Real, out.RealPanic = run(g, in)
		}
		out.Nat, out.NatPanic = run(nat.All[in.Idx], in)
		return
	})
}
`

type consCase struct {
	Main  []any  `json:"main"`
	Tape  any    `json:"tape"`
	Log   []any  `json:"log"`
	Panic string `json:"panic"`
}

// C06: consumer-side range/pull code sees exactly what the generator yields.
func C06(c *vf.Check) {
	res, totalCompared, totalFail, nNontrivial, consts := consFamily(c, false)
	c.Cov["states"] = res.Distinct
	c.Cov["transitions"] = res.Generated
	c.Cov["traces_validated_against_impl"] = int64(totalCompared)
	c.Cov["evaluations"] = int64(totalCompared)
	c.Cov["distinct_nontrivial"] = int64(nNontrivial)
	c.Cov["disagreements_checked"] = int64(totalFail)
	c06Tail(c, consts)
}

// consFamily: the consumer functions of MC_Cons.tla through the real tool. shadowOnly (C03): only the consumers in
// which a loop body re-declares the loop variable (sh = 1, 2), default configuration only.
func consFamily(c *vf.Check, shadowOnly bool) (res *vf.TLCResult, totalCompared, totalFail, nNontrivial int, consts map[string]string) {
	consts = map[string]string{"MaxSize": "3", "TapeLen": tier(c, "3", "4")}
	var cases []consCase
	res = c.S.RunTLC(vf.TLCRun{Module: "MC_Cons", Cfg: "MC_Cons.cfg", Consts: consts, Timeout: tier(c, 10*time.Minute, 90*time.Minute),
		OnCase: func(raw []byte) {
			var cc consCase
			vf.Must(json.Unmarshal(raw, &cc))
			if cc.Main == nil {
				cc.Main = []any{}
			}
			cases = append(cases, cc)
		}})
	res.MustComplete("MC_Cons")
	c.Note("TLC MC_Cons: %d states, %d (consumer, tape) cases (%.0fs)", res.Distinct, res.Cases, res.Wall.Seconds())
	if shadowOnly {
		var keep []consCase
		for _, cc := range cases {
			if js := canon(cc.Main); strings.Contains(js, `"sh":1`) || strings.Contains(js, `"sh":2`) {
				keep = append(keep, cc)
			}
		}
		cases = keep
	}

	type cfg struct {
		holder, gen string
		every       int
	}
	cfgs := []cfg{{"var", "func", 1}}
	sub := tier(c, 9, 2)
	for _, h := range []string{"field", "slice", "map", "closure", "param"} {
		cfgs = append(cfgs, cfg{h, "func", sub})
	}
	cfgs = append(cfgs, cfg{"var", "method", sub}, cfg{"field", "generic", sub})
	if shadowOnly {
		cfgs = cfgs[:1]
	}

	nontrivial := map[string]bool{}
	for _, cf := range cfgs {
		// select cases of this configuration
		mains := newUniq()
		var sel []consCase
		var idxOf []int
		for _, cc := range cases {
			k := canon(cc.Main)
			i, seen := mains.idx[k]
			if !seen {
				i = mains.add(cc.Main)
			}
			if i%cf.every != 0 {
				continue
			}
			sel = append(sel, cc)
			idxOf = append(idxOf, i)
		}
		// renumber the selected consumers densely
		dense := map[int]int{}
		var units [][]any
		for _, i := range idxOf {
			if _, ok := dense[i]; !ok {
				dense[i] = len(units)
				units = append(units, arr(mains.vals[i]))
			}
		}
		dir := c.S.Sub("cons")
		c.S.WriteModule(dir, "scratch")
		writeFile(filepath.Join(dir, "rt", "rt.go"), rt.Source)
		writeFile(filepath.Join(dir, "common.go"), drvCommon)
		natR := &consRenderer{nat: true, holder: cf.holder, gen: cf.gen}
		coR := &consRenderer{holder: cf.holder, gen: cf.gen}
		var na strings.Builder
		na.WriteString("package nat\n\nimport \"scratch/rt\"\n\nvar All = []func(*rt.Rec){\n")
		for i := range units {
			fmt.Fprintf(&na, "\tU%d,\n", i)
		}
		na.WriteString("}\n" + delegNat + consExtraNat + "\n")
		for i, u := range units {
			na.WriteString(natR.fn(i, u) + "\n")
		}
		writeFile(filepath.Join(dir, "nat", "nat.go"), na.String())
		hdr := func(pkg string) string {
			return "//go:build co\n\npackage " + pkg + "\n\nimport (\n\t. \"github.com/goghcrow/go-co\"\n\t\"scratch/rt\"\n)\n\nvar _ = rt.Y\nvar _ Iter[int]\n\n"
		}
		status, npk, runs := compileUnits(c, dir, unitSpec{N: len(units), PerPkg: 60, Hdr: hdr,
			File: func(i int) string { return coR.fn(i, units[i]) },
			All: func(pkg string, live []int) string {
				var b strings.Builder
				b.WriteString("var All = map[int]func(*rt.Rec){\n")
				for _, i := range live {
					fmt.Fprintf(&b, "\t%d: U%d,\n", i, i)
				}
				b.WriteString("}\n" + delegCo + consExtraCo)
				return b.String()
			}})
		var imp, reg strings.Builder
		for pk := 0; pk < npk; pk++ {
			fmt.Fprintf(&imp, "\tgen%03d \"scratch/gen%03d\"\n", pk, pk)
			fmt.Fprintf(&reg, "\tfor k, v := range gen%03d.All {\n\t\tgenAll[k] = v\n\t}\n", pk)
		}
		drv := strings.Replace(consDriverSrc, "//IMPORTS\n", imp.String(), 1)
		drv = strings.Replace(drv, "//REGISTER\n", reg.String(), 1)
		writeFile(filepath.Join(dir, "main.go"), drv)
		if out, err := c.S.Run(dir, nil, "go", "build", "-o", "driver", "."); err != nil {
			vf.Machinery("building the consumer driver failed:\n%s", vf.Trunc(out, 3000))
		}
		type job struct {
			Idx    int    `json:"idx"`
			Tape   []bool `json:"tape"`
			Budget int    `json:"budget"`
		}
		var jobs []job
		for k, cc := range sel {
			jobs = append(jobs, job{Idx: dense[idxOf[k]], Tape: boolTape(cc.Tape), Budget: 60})
		}
		results := runDriver(c, dir, "./driver", nil, jobs, len(jobs))
		what := fmt.Sprintf("iterators held in %s, generators as %s", cf.holder, cf.gen)
		// compile / build failures: the consumer is part of the supported subset (C06: type
		// replacement must be complete or the output does not build)
		groups := map[string][]int{}
		for i, st := range status {
			if st != "" {
				key := st
				if strings.HasPrefix(st, "build: ") {
					key = "build: " + st[strings.LastIndex(st, ": ")+2:]
				}
				groups[key] = append(groups[key], i)
			}
		}
		for _, k := range sortedKeys(groups) {
			v := groups[k]
			totalFail += len(v)
			src := coR.fn(v[0], units[v[0]])
			c.Violation(J{"config": what, "consumer": units[v[0]], "status": status[v[0]], "source": src},
				fmt.Sprintf("[%s] the compiler fails on %d consumer functions: %s\n%s", what, len(v), status[v[0]], src))
			for j := 1; j < len(v); j++ {
				c.Violation(nil, "")
			}
		}
		specNat, specNatMsg := 0, ""
		for k, cc := range sel {
			r := results[k]
			u := dense[idxOf[k]]
			src := coR.fn(u, units[u])
			exp := canon(J{"log": orEmpty(cc.Log), "panic": cc.Panic})
			if r.Status == "notrun" {
				continue
			}
			if r.Status != "ok" {
				if status[u] == "" {
					c.Violation(J{"config": what, "consumer": cc.Main, "tape": cc.Tape, "status": r.Status, "source": src}, fmt.Sprintf("[%s] consumer did not finish (%s):\n%s", what, r.Status, src))
				}
				continue
			}
			var o struct {
				Real, Nat           []any
				RealPanic, NatPanic string
				HasReal             bool
			}
			vf.Must(json.Unmarshal(r.Out, &o))
			if nat := canon(J{"log": orEmpty(o.Nat), "panic": o.NatPanic}); nat != exp {
				specNat++
				if specNatMsg == "" {
					specNatMsg = fmt.Sprintf("%s tape=%s\n  spec:   %s\n  native: %s", natR.fn(u, units[u]), canon(cc.Tape), exp, nat)
				}
				continue
			}
			if status[u] != "" || !o.HasReal {
				continue
			}
			totalCompared++
			nontrivial[what+canon(cc.Main)+canon(cc.Tape)] = true
			if real := canon(J{"log": orEmpty(o.Real), "panic": o.RealPanic}); real != exp {
				c.Violation(J{"config": what, "consumer": cc.Main, "tape": cc.Tape, "expected": json.RawMessage(exp), "actual": json.RawMessage(real), "source": src},
					fmt.Sprintf("[%s] consumer\n%s tape=%s\n  spec: %s\n  real: %s", what, src, canon(cc.Tape), exp, real))
			} else if totalCompared%4001 == 9 {
				c.Sample(J{"config": what, "source": src, "tape": cc.Tape, "expected": json.RawMessage(exp)})
			}
		}
		if specNat > 0 {
			vf.Machinery("specification disagrees with native Go (range-over-func over the pulled iterator) on %d consumer cases; first:\n%s", specNat, specNatMsg)
		}
		c.Add("programs", int64(len(units)))
		c.Add("compiler_runs", int64(runs))
		c.Note("%s consumers [%s]: %d consumers, %d cases", c.ID, what, len(units), len(sel))
	}
	nNontrivial = len(nontrivial)
	return
}

func c06Tail(c *vf.Check, consts map[string]string) {
	c.Cov["rule"] = "every consumer function up to MaxSize statements (pull, range := / = with guarded break/continue/return, nested ranges, a body re-declaring the loop variable, final observation of the function-level v) over two live iterators x every tape; default configuration exhaustively, a covering subset under each other way of holding the iterators (struct field, slice, map, closure result, function parameter) and of declaring the generators (method, generic); the whole recorder log (generator-side effects included: over-pulling is visible) is compared"
	c.Cov["exhaustive"] = true
	c.Cov["bounds"] = consts
	c.Assumptions = append(c.Assumptions, "oracle = MC_Cons.tla over CoSource.tla; native reference = Go's range-over-func over an adaptor of the same pulled iterators, required to agree on every case")

	// consumers that are generators themselves (transformers): F_xf of MC_Src.tla
	rule, bounds := c.Cov["rule"], c.Cov["bounds"]
	runFam(c, famSpec{id: "C06", fam: "xf", name: "F_xf", sizeQ: "4", sizeT: "4", tapeQ: "2", tapeT: "3", callsQ: 6, callsT: 8,
		keys: fullKeys, deleg: true, budget: 40, rule: "F_xf"})
	c.Cov["rule"] = fmt.Sprint(rule) + "; plus F_xf: every GENERATOR up to MaxSize that ranges over a local iterator (for k := range it / for range it) with yields, effects, hand pulls and guarded-free break / continue / return inside the loop, the loop also inside switch clauses and if statements"
	c.Cov["bounds"] = J{"MC_Cons": bounds, "F_xf": c.Cov["bounds"]}
}

func orEmpty(v []any) []any {
	if v == nil {
		return []any{}
	}
	return v
}
