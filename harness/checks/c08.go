package checks

import (
	"encoding/json"
	"fmt"
	"math/rand"
	"os"
	"path/filepath"
	"strings"
	"time"

	"verif/harness/vf"
)

type termCase struct {
	Term any   `json:"term"`
	Tape any   `json:"tape"`
	Obs  []any `json:"obs"`
	Ops  []any `json:"ops"` // C09 histories
}

// collectTermCases runs the model checker on module/cfg and gathers the emitted cases.
func collectTermCases(c *vf.Check, module, cfg string, consts map[string]string, timeout time.Duration) ([]termCase, *vf.TLCResult) {
	var cases []termCase
	res := c.S.RunTLC(vf.TLCRun{Module: module, Cfg: cfg, Consts: consts, Timeout: timeout,
		OnCase: func(raw []byte) {
			var tc termCase
			if err := json.Unmarshal(raw, &tc); err != nil {
				vf.Machinery("bad case line from TLC: %v: %s", err, vf.Trunc(string(raw), 300))
			}
			cases = append(cases, tc)
		}})
	res.MustComplete(module)
	return cases, res
}

// C08: runtime combinators implement the resumption-monad semantics.
//
// TLC checks SeqMachine (the transcription of seq.go) against SeqStructured (the
// direct-style reference) on every term of the bounded family and emits the
// expected observation of every case; each case is replayed on the real runtime
// through the public API.
func C08(c *vf.Check) {
	consts := map[string]string{
		"MaxSize":  "3",
		"TapeLen":  tier(c, "3", "4"),
		"MaxCalls": tier(c, "4", "6"),
	}
	budget := 30
	cases, res := collectTermCases(c, "MC_Seq", "MC_Seq.cfg", consts, tier(c, 10*time.Minute, 60*time.Minute))
	c.Note("TLC MC_Seq: %d states, %d distinct, %d cases emitted, invariants RefAgree/Protocol/NoSpin hold (%.0fs)", res.Generated, res.Distinct, res.Cases, res.Wall.Seconds())

	// T_nest: nested loops whose inner loop value is run once per outer iteration (a run of a loop value that
	// starts while an earlier run of the same value is still unwinding), tapes long enough for an iteration
	// that suspends, one that leaves the loop and one that completes synchronously, in every order
	nconsts := map[string]string{"Fam": tier(c, `"nest"`, `"nestfull"`), "TapeLen": "8", "MaxCalls": tier(c, "4", "5"), "MaxSize": "1"}
	ncases, nres := collectTermCases(c, "MC_Seq", "MC_Seq.cfg", nconsts, tier(c, 10*time.Minute, 60*time.Minute))
	c.Note("TLC MC_Seq(T_nest): %d states, %d cases emitted, invariants RefAgree/Protocol/NoSpin hold (%.0fs)", nres.Generated, nres.Cases, nres.Wall.Seconds())
	nSize := len(cases)
	cases = append(cases, ncases...)
	res.Distinct += nres.Distinct
	res.Generated += nres.Generated

	terms := newUniq()
	var jobs []termJob
	for _, tc := range cases {
		ops := make([]termOp, 0, len(tc.Obs))
		for range tc.Obs {
			ops = append(ops, termOp{Op: "next"})
		}
		jobs = append(jobs, termJob{Idx: terms.add(tc.Term), Tape: boolTape(tc.Tape), Budget: budget, Ops: ops})
	}
	outs := runTerms(c, terms.vals, jobs)

	keys := []string{"ok", "cur", "panic", "effs", "res"}
	nontrivial := map[string]bool{}
	for i, tc := range cases {
		exp := normEvents(tc.Obs, keys...)
		got := ""
		o := outs[i]
		if o.Status == "notrun" {
			continue
		}
		if o.Status != "ok" {
			got = "driver status: " + o.Status + " " + vf.Trunc(o.Crash, 400)
		} else {
			got = normEvents(o.Evs, keys...)
			for _, e := range o.Evs {
				m := obj(e)
				if num(m["cur"]) != num(m["cur2"]) {
					got += " Current unstable"
				}
			}
			if o.New != 0 {
				got += fmt.Sprintf(" construction wrote %d recorder entries", o.New)
			}
			if o.After != 0 {
				got += fmt.Sprintf(" %d recorder entries appeared after the consumer stopped", o.After)
			}
		}
		if exp != got {
			c.Violation(J{"family": map[bool]string{true: "T_term", false: "T_nest"}[i < nSize], "term": tc.Term, "tape": tc.Tape, "expected": json.RawMessage(exp), "actual": got, "go": renderTerm(tc.Term)},
				fmt.Sprintf("term %s tape=%s\n  spec: %s\n  real: %s", renderTerm(tc.Term), canon(tc.Tape), exp, got))
		}
		if len(tc.Obs) > 0 && len(arr(obj(tc.Obs[0])["effs"])) > 0 {
			nontrivial[canon(tc.Term)+canon(tc.Tape)] = true
		}
		if i%4001 == 17 {
			c.Sample(J{"term": renderTerm(tc.Term), "tape": tc.Tape, "expected": json.RawMessage(exp)})
		}
	}
	bindingSelfTest(c, "C08", cases[len(cases)/2].Obs, keys)
	randomLargerTerms(c, keys, tier(c, 1500, 30000))
	traceRuntimeEvents(c, terms.vals, jobs)

	c.Cov["states"] = res.Distinct
	c.Cov["transitions"] = res.Generated
	c.Cov["traces_validated_against_impl"] = int64(len(cases))
	c.Cov["programs"] = int64(len(terms.vals))
	c.Cov["evaluations"] = int64(len(cases))
	c.Cov["distinct_nontrivial"] = int64(len(nontrivial))
	c.Cov["rule"] = "every well-formed term of T_term up to MaxSize x every tape up to TapeLen, MaxCalls advances each (prefixes = all truncations); every term of T_nest (two nested loops, the inner one a single Seq value run once per outer iteration, body = tape-guarded choice between signals, yield-then-signal and a second guarded pair) x every tape of length 8 (thorough: all post / Breakable variants); non-trivial = distinct (term,tape) whose first advance performs at least one effect or tape read; plus trace validation of the runtime's internal event streams (verif tracer) recorded from the repository's own tests and examples and from sampled terms against Trace_Seq.tla"
	c.Cov["exhaustive"] = true
	c.Cov["bounds"] = consts
	c.Assumptions = append(c.Assumptions,
		"terms are closed over one mutable int and use int elements; thunks are effect/inc prefixes followed by return or a tape-guarded return",
		"the direct-style reference SeqStructured.tla is the documented semantics (seq/README.md); TLC proves it equal to the seq.go transcription on the same family")
}

// bindingSelfTest shows on every run that the comparison is live: a recorded
// expectation with one corrupted field must not compare equal to itself.
func bindingSelfTest(c *vf.Check, id string, obs []any, keys []string) {
	if len(obs) == 0 {
		return
	}
	good := normEvents(obs, keys...)
	var cp []any
	vf.Must(json.Unmarshal([]byte(canon(obs)), &cp))
	m := obj(cp[0])
	m["ok"] = !(m["ok"] == true)
	if normEvents(cp, keys...) == good {
		vf.Machinery("binding self-test failed: a corrupted trace compares equal (%s)", id)
	}
}

// traceRuntimeEvents: code -> spec. The repository's own tests and example programs
// are run with the verif tracer of the runtime switched on; the recorded internal
// event streams (advance, bind, loop head, continuation calls with their signals)
// are validated against Trace_Seq.tla, the control skeleton of SeqMachine with the
// term inferred. A sample of the enumerated term cases is traced the same way.
func traceRuntimeEvents(c *vf.Check, terms []any, jobs []termJob) {
	tdir := c.S.Sub("rtrace")
	base := filepath.Join(tdir, "ev.ndjson")
	pkgs := []string{"./seq", "./example", "./example/linq", "./example/tree", "./example/lexer"}
	out, err := c.S.Run(vf.RepoDir(), []string{"GOCO_VERIF_TRACE_FILE=" + base, "GOCO_VERIF_TRACE_MAX=" + tier(c, "6000", "40000")},
		"go", append([]string{"test", "-tags", "verif", "-vet=off", "-count=1"}, pkgs...)...)
	if err != nil {
		vf.Machinery("the repository's tests do not pass with the verif tag (hooks must not change behaviour):\n%s", vf.Trunc(out, 2000))
	}
	// a sample of the enumerated terms, traced through the same hook
	if len(jobs) > 0 {
		var sel []termJob
		step := len(jobs)/tier(c, 400, 4000) + 1
		for i := 0; i < len(jobs); i += step {
			sel = append(sel, jobs[i])
		}
		runTermsEnv(c, terms, sel, []string{"GOCO_VERIF_TRACE_FILE=" + base + ".terms", "GOCO_VERIF_TRACE_MAX=200000"}, "verif")
	}
	files, _ := filepath.Glob(base + "*")
	total := 0
	var sample string
	for _, f := range files {
		data, err := os.ReadFile(f)
		if err != nil || len(data) == 0 {
			continue
		}
		n := strings.Count(string(data), "\n")
		ok, depth := validateTrace(c, "Trace_Seq", "Trace_Seq.cfg", string(data))
		if !ok {
			lines := strings.Split(string(data), "\n")
			bad := depth
			if bad >= len(lines) {
				bad = len(lines) - 1
			}
			lo := bad - 12
			if lo < 0 {
				lo = 0
			}
			c.Violation(J{"trace_file": filepath.Base(f), "rejected_event_index": bad, "context": lines[lo : bad+1]},
				fmt.Sprintf("the runtime's internal event stream is not a behaviour of SeqMachine's control skeleton (Trace_Seq.tla): event %d %s rejected after %v", bad, lines[bad], lines[lo:bad]))
			continue
		}
		total += n
		if sample == "" {
			sample = strings.Join(strings.SplitN(string(data), "\n", 8)[:7], " ")
		}
		// binding self-test on the first file: a continuation event with a different signal must be rejected
		if strings.Contains(string(data), `"e":"kcomb","c":1,"t":0`) && c.Cov["trace_selftest"] == nil {
			mut := strings.Replace(string(data), `"e":"kcomb","c":1,"t":0`, `"e":"kcomb","c":1,"t":2`, 1)
			if ok, _ := validateTrace(c, "Trace_Seq", "Trace_Seq.cfg", mut); ok {
				vf.Machinery("binding self-test failed: Trace_Seq accepts a trace with a corrupted continuation signal")
			}
			c.Cov["trace_selftest"] = "corrupted continuation signal rejected"
		}
	}
	c.Cov["runtime_events_validated"] = int64(total)
	c.Sample(J{"runtime_event_trace": sample})
	c.Note("trace validation (Trace_Seq.tla): %d internal runtime events of the repository's tests / examples and of sampled terms accepted (%d trace files)", total, len(files))
}

// randomLargerTerms: terms of size 5..12 derived from seeded choice tapes by MC_RndSeq.tla
// (same grammar, same invariants), replayed on the real runtime like the exhaustive ones.
func randomLargerTerms(c *vf.Check, keys []string, n int) {
	rnd := rand.New(rand.NewSource(c.Seed*104729 + 7))
	var sb strings.Builder
	for i := 0; i < n; i++ {
		size := 5 + rnd.Intn(8)
		ch := make([]int, 70)
		for j := range ch {
			ch[j] = rnd.Intn(60)
		}
		tape := make([]bool, rnd.Intn(8))
		for j := range tape {
			tape[j] = rnd.Float64() < 0.6
		}
		b, _ := json.Marshal(J{"size": size, "ch": ch, "tape": tape})
		sb.Write(b)
		sb.WriteByte('\n')
	}
	f := filepath.Join(c.S.Sub("choices"), "choices.ndjson")
	writeFile(f, sb.String())
	var cases []termCase
	res := c.S.RunTLC(vf.TLCRun{Module: "MC_RndSeq", Cfg: "MC_RndSeq.cfg", Env: []string{"VERIF_CHOICES=" + f}, Timeout: 60 * time.Minute,
		OnCase: func(raw []byte) {
			var tc termCase
			vf.Must(json.Unmarshal(raw, &tc))
			cases = append(cases, tc)
		}})
	res.MustComplete("MC_RndSeq")
	terms := newUniq()
	var jobs []termJob
	for _, tc := range cases {
		ops := make([]termOp, 0, len(tc.Obs))
		for range tc.Obs {
			ops = append(ops, termOp{Op: "next"})
		}
		jobs = append(jobs, termJob{Idx: terms.add(tc.Term), Tape: boolTape(tc.Tape), Budget: 60, Ops: ops})
	}
	outs := runTerms(c, terms.vals, jobs)
	bad := 0
	for i, tc := range cases {
		if outs[i].Status == "notrun" {
			continue
		}
		exp := normEvents(tc.Obs, keys...)
		got := "driver status: " + outs[i].Status
		if outs[i].Status == "ok" {
			got = normEvents(outs[i].Evs, keys...)
		}
		if exp != got {
			bad++
			c.Violation(J{"family": "T_term(derived)", "term": tc.Term, "tape": tc.Tape, "expected": json.RawMessage(exp), "actual": got, "go": renderTerm(tc.Term)},
				fmt.Sprintf("derived term %s tape=%s\n  spec: %s\n  real: %s", renderTerm(tc.Term), canon(tc.Tape), exp, got))
		}
	}
	c.Note("derived larger terms (size 5..12, seed %d): %d terms, %d cases, RefAgree holds on all (TLC), %d divergences on the real runtime", c.Seed, len(terms.vals), len(cases), bad)
	c.Add("random_terms", int64(len(terms.vals)))
	c.Add("random_term_cases", int64(len(cases)))
}
