package checks

import (
	"encoding/json"
	"fmt"
	"time"

	"verif/harness/vf"
)

type termCase struct {
	Term any   `json:"term"`
	Tape any   `json:"tape"`
	Obs  []any `json:"obs"`
	Ops  []any `json:"ops"` // C09 histories
}

// collectTermCases runs the model checker on module/cfg and gathers the emitted cases.
func collectTermCases(c *vf.Check, module, cfg string, consts map[string]string, timeout time.Duration) ([]termCase, *vf.TLCResult) {
	var cases []termCase
	res := c.S.RunTLC(vf.TLCRun{Module: module, Cfg: cfg, Consts: consts, Timeout: timeout,
		OnCase: func(raw []byte) {
			var tc termCase
			if err := json.Unmarshal(raw, &tc); err != nil {
				vf.Machinery("bad case line from TLC: %v: %s", err, vf.Trunc(string(raw), 300))
			}
			cases = append(cases, tc)
		}})
	res.MustComplete(module)
	return cases, res
}

// C08: runtime combinators implement the resumption-monad semantics.
//
// TLC checks SeqMachine (the transcription of seq.go) against SeqStructured (the
// direct-style reference) on every term of the bounded family and emits the
// expected observation of every case; each case is replayed on the real runtime
// through the public API.
func C08(c *vf.Check) {
	consts := map[string]string{
		"MaxSize":  tier(c, "3", "4"),
		"TapeLen":  tier(c, "3", "3"),
		"MaxCalls": tier(c, "4", "5"),
	}
	budget := 30
	cases, res := collectTermCases(c, "MC_Seq", "MC_Seq.cfg", consts, tier(c, 10*time.Minute, 60*time.Minute))
	c.Note("TLC MC_Seq: %d states, %d distinct, %d cases emitted, invariants RefAgree/Protocol/NoSpin hold (%.0fs)", res.Generated, res.Distinct, res.Cases, res.Wall.Seconds())

	terms := newUniq()
	var jobs []termJob
	for _, tc := range cases {
		ops := make([]termOp, 0, len(tc.Obs))
		for range tc.Obs {
			ops = append(ops, termOp{Op: "next"})
		}
		jobs = append(jobs, termJob{Idx: terms.add(tc.Term), Tape: boolTape(tc.Tape), Budget: budget, Ops: ops})
	}
	outs := runTerms(c, terms.vals, jobs)

	keys := []string{"ok", "cur", "panic", "effs", "res"}
	nontrivial := map[string]bool{}
	for i, tc := range cases {
		exp := normEvents(tc.Obs, keys...)
		got := ""
		o := outs[i]
		if o.Status == "notrun" {
			continue
		}
		if o.Status != "ok" {
			got = "driver status: " + o.Status + " " + vf.Trunc(o.Crash, 400)
		} else {
			got = normEvents(o.Evs, keys...)
			for _, e := range o.Evs {
				m := obj(e)
				if num(m["cur"]) != num(m["cur2"]) {
					got += " Current unstable"
				}
			}
			if o.New != 0 {
				got += fmt.Sprintf(" construction wrote %d recorder entries", o.New)
			}
			if o.After != 0 {
				got += fmt.Sprintf(" %d recorder entries appeared after the consumer stopped", o.After)
			}
		}
		if exp != got {
			c.Violation(J{"family": "T_term", "term": tc.Term, "tape": tc.Tape, "expected": json.RawMessage(exp), "actual": got, "go": renderTerm(tc.Term)},
				fmt.Sprintf("term %s tape=%s\n  spec: %s\n  real: %s", renderTerm(tc.Term), canon(tc.Tape), exp, got))
		}
		if len(tc.Obs) > 0 && len(arr(obj(tc.Obs[0])["effs"])) > 0 {
			nontrivial[canon(tc.Term)+canon(tc.Tape)] = true
		}
		if i%4001 == 17 {
			c.Sample(J{"term": renderTerm(tc.Term), "tape": tc.Tape, "expected": json.RawMessage(exp)})
		}
	}
	bindingSelfTest(c, "C08", cases[len(cases)/2].Obs, keys)

	c.Cov["states"] = res.Distinct
	c.Cov["transitions"] = res.Generated
	c.Cov["traces_validated_against_impl"] = int64(len(cases))
	c.Cov["programs"] = int64(len(terms.vals))
	c.Cov["evaluations"] = int64(len(cases))
	c.Cov["distinct_nontrivial"] = int64(len(nontrivial))
	c.Cov["rule"] = "every well-formed term of T_term up to MaxSize x every tape up to TapeLen, MaxCalls advances each (prefixes = all truncations); non-trivial = distinct (term,tape) whose first advance performs at least one effect or tape read"
	c.Cov["exhaustive"] = true
	c.Cov["bounds"] = consts
	c.Assumptions = append(c.Assumptions,
		"terms are closed over one mutable int and use int elements; thunks are effect/inc prefixes followed by return or a tape-guarded return",
		"the direct-style reference SeqStructured.tla is the documented semantics (seq/README.md); TLC proves it equal to the seq.go transcription on the same family")
}

// bindingSelfTest shows on every run that the comparison is live: a recorded
// expectation with one corrupted field must not compare equal to itself.
func bindingSelfTest(c *vf.Check, id string, obs []any, keys []string) {
	if len(obs) == 0 {
		return
	}
	good := normEvents(obs, keys...)
	var cp []any
	vf.Must(json.Unmarshal([]byte(canon(obs)), &cp))
	m := obj(cp[0])
	m["ok"] = !(m["ok"] == true)
	if normEvents(cp, keys...) == good {
		vf.Machinery("binding self-test failed: a corrupted trace compares equal (%s)", id)
	}
}
