package checks

import (
	"fmt"
	"os"
	"sort"
	"strings"
	"time"

	"verif/harness/vf"
)

// C11: the compiler accepts the whole supported subset and its output builds.
//
// The families ARE the supported subset written down (spec/SrcSyntax.tla,
// MC_Src.tla); every member must compile without a panic and the generated
// package must build without the co tag, under every configuration (import
// style of the API, trailing return or not).
func C11(c *vf.Check) {
	total, failed := 0, 0
	type famCases struct {
		cases []srcCase
		res   *vf.TLCResult
	}
	cache := map[string]famCases{}
	runCfg := func(fam string, size string, lazy string, o srcOpts, what string, every int) {
		if only := os.Getenv("VERIF_ONLY_CFG"); only != "" && !strings.Contains(what, only) { // debugging knob
			return
		}
		o.CompileOnly = true
		consts := map[string]string{
			"Family": `"` + fam + `"`, "MaxSize": size, "TapeLen": "0", "MaxCalls": "1",
			"OpenFlags": "{}", "Lazy": lazy,
		}
		key := fam + size + lazy
		if _, ok := cache[key]; !ok {
			cs, r := collectSrcCases(c, "MC_Src", "MC_Src.cfg", consts, 60*time.Minute)
			cache[key] = famCases{cs, r}
		}
		cases, res := cache[key].cases, cache[key].res
		if every > 1 { // covering subset for the configuration dimension
			var sub []srcCase
			seen := map[string]int{}
			for _, sc := range cases {
				k := canon(sc.Prog)
				if _, ok := seen[k]; !ok {
					seen[k] = len(seen)
				}
				if seen[k]%every == 0 {
					sub = append(sub, sc)
				}
			}
			cases = sub
		}
		run := runSrcFamily(c, cases, 3, o)
		groups := compileFailures(run)
		keys := make([]string, 0, len(groups))
		for k := range groups {
			keys = append(keys, k)
		}
		sort.Strings(keys)
		nf := 0
		for _, k := range keys {
			v := groups[k]
			nf += len(v)
			if o.Form == "hygiene" && c.KF.Open("KF36", c.ID) && strings.Contains(k, "is not a type") {
				// open finding KF36: identified by the configuration AND the diagnostic; anything else is a violation
				for range v {
					c.Known("KF36", "["+fam+", "+what+"] "+vf.Trunc(run.Status[v[0]], 200))
				}
				continue
			}
			for j, p := range v {
				if j >= 2 {
					break
				}
				src := (&srcRenderer{md: coMode, api: apiOf(o.Import), form: o.Form}).genFunc("G", arr(run.Progs[p]), trailingOf(o))
				c.Violation(J{"family": fam, "config": what, "prog": run.Progs[p], "status": run.Status[p], "source": src},
					fmt.Sprintf("[%s, %s] the compiler fails on a supported program (%d programs with this message): %s\n%s", fam, what, len(v), run.Status[p], src))
			}
			for j := 2; j < len(v); j++ {
				c.Violation(nil, "")
			}
		}
		total += len(run.Progs)
		failed += nf
		c.Add("states", res.Distinct)
		c.Add("transitions", res.Generated)
		c.Add("programs", int64(len(run.Progs)))
		c.Add("compiler_runs", int64(run.CompilerRuns))
		c.Note("C11 [%s size<=%s, %s]: %d programs, %d fail to compile or build", fam, size, what, len(run.Progs), nf)
		if len(run.Progs) > 0 {
			c.Sample(J{"family": fam, "config": what, "source": renderCo(arr(run.Progs[len(run.Progs)/2]))})
		}
	}
	runCfg("ctlx", "3", "FALSE", srcOpts{}, "dot import, return only where required", 1)
	// the other families of the supported subset (their own checks compare behaviour and leave compiler failures to this one)
	runCfg("range", "2", "FALSE", srcOpts{}, "range loops inside generators", 1)
	runCfg("scope", tier(c, "2", "3"), "FALSE", srcOpts{}, "declarations and scopes", 1)
	runCfg("yf", tier(c, "2", "3"), "FALSE", srcOpts{Deleg: true}, "delegation", 1)
	runCfg("xf", tier(c, "3", "4"), "FALSE", srcOpts{Deleg: true}, "generators ranging over iterators", 1)
	runCfg("expr", "2", "FALSE", srcOpts{ElemExtras: true}, "yielded expression shapes; every package also declares generators of other element types (generator of generators, any, error, func, map, ...)", 1)
	runCfg("jump", tier(c, "3", "4"), "FALSE", srcOpts{}, "jumps", tier(c, 3, 1))
	every := tier(c, 14, 2)
	sz := "3"
	runCfg("ctl", sz, "FALSE", srcOpts{Import: "named"}, "import by default name co.", every)
	runCfg("ctl", sz, "FALSE", srcOpts{Import: "renamed"}, "renamed import gc.", every)
	runCfg("ctl", sz, "FALSE", srcOpts{Trailing: "always"}, "dot import, trailing return nil always", every)
	for _, form := range []string{"method", "generic", "lit", "nestedlit"} {
		runCfg("ctl", sz, "FALSE", srcOpts{Form: form}, "generators declared as "+form, every)
	}
	runCfg("ctl", "2", "FALSE", srcOpts{Form: "hygiene"}, "a parameter named like the element type (type a = int; func G(r, a, b a) Iter[a])", 1)
	runCfg("ctl", sz, "FALSE", srcOpts{Form: "method", Import: "named"}, "method generators, API imported by name", every*2)
	runCfg("ctl", sz, "FALSE", srcOpts{Import: "dot+seq"}, "seq already imported by the source under its default name", every)
	runCfg("ctl", sz, "FALSE", srcOpts{Import: "dot+sq"}, "seq already imported by the source under another name", every)
	c.Cov["traces_validated_against_impl"] = int64(total)
	c.Cov["evaluations"] = int64(total)
	c.Cov["distinct_nontrivial"] = int64(total)
	c.Cov["disagreements_checked"] = int64(failed)
	c.Cov["rule"] = "every program of F_ctlx (control flow with all switch forms) up to the size bound in the default configuration, every program of F_range, F_scope, F_yf, F_xf, F_expr, F_jump at a smaller bound (the F_expr packages also declare generators of slice / map / func / any / error / struct / pointer / channel / Iter[int] / type-parameter element types), and a covering subset (quick: every 14th program; thorough: every 2nd) under each other configuration; each is compiled by the real tool and the output built without the co tag; distinct = distinct program x configuration"
	c.Cov["exhaustive"] = true
	c.Assumptions = append(c.Assumptions, "supported subset = the grammar of spec/SrcSyntax.tla + MC_Src.tla alphabets; every rendered source is first required to type-check under -tags co")
}

func apiOf(imp string) string {
	switch imp {
	case "named":
		return "co."
	case "renamed":
		return "gc."
	}
	return ""
}
func trailingOf(o srcOpts) string {
	if o.Trailing == "" {
		return "needed"
	}
	return o.Trailing
}

var _ = strings.Join
