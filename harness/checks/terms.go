package checks

import (
	"encoding/json"
	"fmt"
	"path/filepath"
	"strings"

	rt "verif/harness/rtsrc"
	"verif/harness/vf"
)

// ---------------------------------------------------------------- rendering of T_term

func termVexpr(v any) string {
	m := obj(v)
	if m["k"] == "lit" {
		return itoa(num(m["v"]))
	}
	return "x"
}

func termPre(ss any) string {
	var b strings.Builder
	for _, s := range arr(ss) {
		m := obj(s)
		switch m["k"] {
		case "eff":
			fmt.Fprintf(&b, "r.E(%d, x); ", num(m["id"]))
		case "inc":
			b.WriteString("x++; ")
		case "panic":
			b.WriteString(`panic("boom"); `)
		default:
			panic("unknown pre statement " + canon(m))
		}
	}
	return b.String()
}

func termThunk(f any, recv bool) string {
	m := obj(f)
	var b strings.Builder
	if recv {
		b.WriteString("func(recv int) seq.Seq[int] { ")
	} else {
		b.WriteString("func() seq.Seq[int] { ")
	}
	if rl := num(m["rl"]); rl != 0 {
		if !recv {
			panic("receive log in a thunk without parameter")
		}
		fmt.Fprintf(&b, "r.R(%d, recv); ", rl)
	}
	b.WriteString(termPre(m["pre"]))
	body := obj(m["body"])
	if body["k"] == "ret" {
		b.WriteString("return " + renderTerm(body["e"]) + " }")
	} else {
		fmt.Fprintf(&b, "if r.T(%d) { return %s }; return %s }", num(body["id"]), renderTerm(body["a"]), renderTerm(body["b"]))
	}
	return b.String()
}

// renderTerm prints a term of T_term as direct calls of the public seq API.
func renderTerm(t any) string {
	m := obj(t)
	switch m["k"] {
	case "bind":
		return "seq.Bind[int](" + termVexpr(m["v"]) + ", " + termThunk(m["f"], false) + ")"
	case "bindrecv":
		return "seq.BindRecv[int](" + termVexpr(m["v"]) + ", " + termThunk(m["f"], true) + ")"
	case "delay":
		return "seq.Delay[int](" + termThunk(m["f"], false) + ")"
	case "comb":
		return "seq.Combine[int](" + renderTerm(m["a"]) + ", " + renderTerm(m["b"]) + ")"
	case "forpost":
		return fmt.Sprintf("seq.ForPost[int](func() bool { return r.T(%d) }, %s, %s)", num(obj(m["c"])["id"]), renderTerm(m["post"]), renderTerm(m["body"]))
	case "brk":
		return "seq.Breakable[int](" + renderTerm(m["body"]) + ")"
	case "for":
		c, p := "nil", "nil"
		if !isNone(m["c"]) {
			c = fmt.Sprintf("func() bool { return r.T(%d) }", num(obj(m["c"])["id"]))
		}
		if !isNone(m["p"]) {
			p = fmt.Sprintf("func() { x = r.P(%d, x) }", num(obj(m["p"])["id"]))
		}
		if c == "nil" && p == "nil" {
			return "seq.Loop[int](" + renderTerm(m["body"]) + ")"
		}
		if p == "nil" {
			return "seq.While[int](" + c + ", " + renderTerm(m["body"]) + ")"
		}
		return "seq.For[int](" + c + ", " + p + ", " + renderTerm(m["body"]) + ")"
	case "sig":
		switch m["t"] {
		case "normal":
			return "seq.Normal[int]()"
		case "break":
			return "seq.Break[int]()"
		case "continue":
			return "seq.Continue[int]()"
		case "return":
			return "seq.Return[int]()"
		}
	case "retval":
		return "seq.ReturnValue[int](" + termVexpr(m["v"]) + ")"
	}
	panic("unknown term " + canon(m))
}

const termDriverSrc = `package main

import (
	"fmt"
	"runtime"

	"github.com/goghcrow/go-co/seq"
	"scratch/rt"
	"scratch/terms"
)

type Op struct {
	Op  string ` + "`json:\"op\"`" + `
	Arg int    ` + "`json:\"arg\"`" + `
}
type In struct {
	Idx    int    ` + "`json:\"idx\"`" + `
	Tape   []bool ` + "`json:\"tape\"`" + `
	Budget int    ` + "`json:\"budget\"`" + `
	Ops    []Op   ` + "`json:\"ops\"`" + `
}
type Ev struct {
	Op    string  ` + "`json:\"op\"`" + `
	Arg   int     ` + "`json:\"arg\"`" + `
	Ok    bool    ` + "`json:\"ok\"`" + `
	Cur   int     ` + "`json:\"cur\"`" + `
	Cur2  int     ` + "`json:\"cur2\"`" + `
	Val   int     ` + "`json:\"val\"`" + `
	Res   int     ` + "`json:\"res\"`" + `
	Panic string  ` + "`json:\"panic\"`" + `
	Effs  [][]any ` + "`json:\"effs\"`" + `
}
type Out struct {
	New   int  ` + "`json:\"new\"`" + `   // recorder entries written while the iterator was constructed
	After int  ` + "`json:\"after\"`" + ` // recorder entries written after the consumer stopped
	Evs   []Ev ` + "`json:\"evs\"`" + `
}

func step(it seq.Generator[int], r *rt.Rec, op Op) (ev Ev) {
	n := len(r.Log)
	ev.Op, ev.Arg = op.Op, op.Arg
	defer func() {
		if p := recover(); p != nil {
			ev.Panic = fmt.Sprint(p)
		}
		ev.Effs = append([][]any{}, r.Log[n:]...)
		ev.Cur = it.Current()
		ev.Cur2 = it.Current() // Current twice: stable and effect free
		ev.Res = it.Result()
		if len(r.Log) != n+len(ev.Effs) {
			ev.Panic += "|Current/Result wrote to the recorder"
		}
	}()
	switch op.Op {
	case "next":
		ev.Ok = it.MoveNext()
	case "cur":
		ev.Ok, ev.Val = true, it.Current()
	case "result":
		ev.Ok, ev.Val = true, it.Result()
	case "send":
		ev.Val, ev.Ok = it.Send(op.Arg)
	}
	return
}

func main() {
	serve(func(in In) (out Out) {
		r := rt.NewRec(in.Tape, in.Budget)
		it := terms.All[in.Idx](r).(seq.Generator[int])
		out.New = len(r.Log)
		for _, op := range in.Ops {
			ev := step(it, r, op)
			out.Evs = append(out.Evs, ev)
			if ev.Panic != "" {
				break
			}
		}
		n := len(r.Log)
		runtime.Gosched()
		out.After = len(r.Log) - n
		return
	})
}
`

type termOp struct {
	Op  string `json:"op"`
	Arg int    `json:"arg"`
}
type termJob struct {
	Idx    int      `json:"idx"`
	Tape   []bool   `json:"tape"`
	Budget int      `json:"budget"`
	Ops    []termOp `json:"ops"`
}
type termOut struct {
	Status string `json:"-"` // ok | timeout | crash
	Crash  string `json:"-"`
	New    int    `json:"new"`
	After  int    `json:"after"`
	Evs    []any  `json:"evs"`
}

// runTerms renders the terms as direct seq.* calls, builds them against /repo's
// working tree and runs the jobs on the real runtime (public API only).
func runTerms(c *vf.Check, terms []any, jobs []termJob) []termOut {
	return runTermsEnv(c, terms, jobs, nil, "")
}

// runTermsEnv: as runTerms, with extra environment for the driver and an optional build tag.
func runTermsEnv(c *vf.Check, terms []any, jobs []termJob, env []string, tag string) []termOut {
	dir := c.S.Sub("terms")
	c.S.WriteModule(dir, "scratch")
	writeFile(filepath.Join(dir, "rt", "rt.go"), rt.Source)
	const per = 500
	for fi := 0; fi*per < len(terms); fi++ {
		var b strings.Builder
		b.WriteString("package terms\n\nimport (\n\t\"github.com/goghcrow/go-co/seq\"\n\t\"scratch/rt\"\n)\n\n")
		if fi == 0 {
			b.WriteString("var All = []func(*rt.Rec) seq.Iterator[int]{\n")
			for i := range terms {
				fmt.Fprintf(&b, "\tT%d,\n", i)
			}
			b.WriteString("}\n\n")
		}
		for i := fi * per; i < (fi+1)*per && i < len(terms); i++ {
			fmt.Fprintf(&b, "func T%d(r *rt.Rec) seq.Iterator[int] {\n\tx := 0\n\t_ = x\n\treturn seq.Start[int](%s)\n}\n\n", i, renderTerm(terms[i]))
		}
		writeFile(filepath.Join(dir, "terms", fmt.Sprintf("t%d.go", fi)), b.String())
	}
	writeFile(filepath.Join(dir, "main.go"), termDriverSrc)
	writeFile(filepath.Join(dir, "common.go"), drvCommon)
	bargs := []string{"build", "-o", "driver"}
	if tag != "" {
		bargs = append(bargs, "-tags", tag)
	}
	if out, err := c.S.Run(dir, nil, "go", append(bargs, ".")...); err != nil {
		vf.Machinery("building the term driver failed (rendered terms must build against the public seq API):\n%s", vf.Trunc(out, 3000))
	}
	res := runDriver(c, dir, "./driver", env, jobs, len(jobs))
	outs := make([]termOut, len(jobs))
	for i, r := range res {
		outs[i].Status = r.Status
		if r.Status == "ok" {
			vf.Must(json.Unmarshal(r.Out, &outs[i]))
			outs[i].Status = "ok"
		} else {
			outs[i].Crash = r.Crash
		}
	}
	return outs
}
