package checks

import (
	"fmt"
	"os"
	"time"

	"verif/harness/vf"
)

type famSpec struct {
	id, fam, name   string
	sizeQ, sizeT    string
	tapeQ, tapeT    string
	callsQ, callsT  int
	deleg           bool
	keys            []string
	truncations     bool
	budget          int
	rule            string
	assume          []string
	lazyT           bool
	flags           []string // as-built flags this family knows about
	opts            srcOpts  // rendering options
	by              bool     // bystander family: the expectation gets the result / extras entry
	failIsViolation bool
	render          func([]any) string
}

// runFam is the shared body of the generator-source checks: TLC enumerates the
// family and emits expectations, every program goes through the real compiler,
// every case is run on the real runtime and natively, and judged.
func runFam(c *vf.Check, f famSpec) {
	if f.render == nil {
		f.render = renderCo
	}
	if only := os.Getenv("VERIF_ONLY_FAM"); only != "" && only != f.fam { // debugging knob
		return
	}
	calls := tier(c, f.callsQ, f.callsT)
	budget := f.budget
	if budget == 0 {
		budget = 30
	}
	consts := map[string]string{
		"Family":    `"` + f.fam + `"`,
		"MaxSize":   tier(c, f.sizeQ, f.sizeT),
		"TapeLen":   tier(c, f.tapeQ, f.tapeT),
		"MaxCalls":  itoa(calls),
		"Budget":    itoa(budget),
		"OpenFlags": flagSet(c, append([]string{"KF04", "KF16"}, f.flags...)...),
		"Lazy":      tier(c, "FALSE", map[bool]string{true: "TRUE", false: "FALSE"}[f.lazyT]),
	}
	cases, res := collectSrcCases(c, "MC_Src", "MC_Src.cfg", consts, tier(c, 10*time.Minute, 120*time.Minute))
	c.Note("TLC MC_Src(%s): %d states, %d cases emitted, NoSpin/LazyStart/DoneStaysDone hold (%.0fs)", f.fam, res.Distinct, res.Cases, res.Wall.Seconds())
	if f.truncations {
		// every truncation length k of the MoveNext sequence is a separate run on a fresh
		// iterator: the expectation of k calls is the k-prefix of the expectation
		var ex []srcCase
		for _, sc := range cases {
			for k := 0; k <= len(sc.Ideal); k++ {
				t := sc
				t.Ideal = sc.Ideal[:k]
				if !sc.Same {
					if k <= len(sc.AsBuilt) {
						t.AsBuilt = sc.AsBuilt[:k]
					}
				}
				ex = append(ex, t)
			}
		}
		cases = ex
	}
	if f.by {
		// a bystander is called once; the driver appends ["ret", result, extras...] to the log
		for i := range cases {
			if len(cases[i].Ideal) == 0 {
				continue
			}
			ev := obj(cases[i].Ideal[0])
			if str(ev["panic"]) == "" {
				ev["effs"] = append(arr(ev["effs"]), []any{"ret", cases[i].RetA, 42, 7, 3, 1, 5})
			}
		}
	}
	o := f.opts
	o.Deleg = f.deleg
	o.Budget = budget
	run := runSrcFamilyCalls(c, cases, o)
	nfail := 0
	if f.failIsViolation {
		// the generated version of this code must exist: a compiler failure violates this property too
		groups := compileFailures(run)
		for _, k := range sortedKeys(groups) {
			v := groups[k]
			nfail += len(v)
			src := f.render(arr(run.Progs[v[0]]))
			c.Violation(J{"family": f.name, "prog": run.Progs[v[0]], "status": run.Status[v[0]], "source": src},
				fmt.Sprintf("[%s] the compiler fails on %d programs: %s\n%s", f.name, len(v), run.Status[v[0]], src))
			for j := 1; j < len(v); j++ {
				c.Violation(nil, "")
			}
		}
	} else {
		nfail = noteCompileFailures(c, run)
	}
	flag := "KF04"
	if len(f.flags) > 0 {
		flag = f.flags[0]
	}
	st := judgeSrc(c, f.name, cases, run, flag, f.keys, f.render)
	c.Note("%s: programs=%d (compile/build failures %d) cases=%d compared=%d pass=%d known=%d violations=%d; spec=native on all %d cases",
		f.name, len(run.Progs), nfail, len(cases), st.Compared, st.Pass, st.Known, st.Viol, len(cases))
	if len(cases) > 1 {
		bindingSelfTest(c, f.id, cases[len(cases)-1].Ideal, srcKeys)
	}
	rule := f.rule
	if rule == "" {
		rule, _ = c.Cov["rule"].(string)
	}
	srcCoverage(c, res, cases, run, st, consts, rule)
	c.Cov["exhaustive"] = true
	c.Assumptions = append(c.Assumptions, "oracle = CoSource.tla, validated on every case of this run against native Go (iter.Pull rendering of the same AST)")
	c.Assumptions = append(c.Assumptions, f.assume...)
}

// runSrcFamilyCalls runs every case with as many calls as its expectation has events.
func runSrcFamilyCalls(c *vf.Check, cases []srcCase, o srcOpts) *srcRun {
	return runSrcFamilyN(c, cases, func(i int) int { return len(cases[i].Ideal) }, o)
}

var fullKeys = []string{"ok", "cur", "panic", "effs"}

// C02: execution is demand-driven and in lockstep with the consumer.
func C02(c *vf.Check) {
	runFam(c, famSpec{id: "C02", fam: "eff", name: "F_eff", sizeQ: "3", sizeT: "3", tapeQ: "3", tapeT: "4", callsQ: 4, callsT: 5,
		keys: fullKeys, truncations: true, lazyT: true,
		rule:   "every program of F_eff (control-flow family with an effect statement alphabet and effectful yield expressions r.V(id,a)) up to MaxSize x every tape x EVERY truncation length k in 0..MaxCalls as a separate run on a fresh iterator; the observation is the interleaving: recorder entries written during construction (must be none), during each MoveNext (exactly the entries between two yields, in order, including the yielded expression's own), and after the consumer stopped (must be none); non-trivial = run with at least one effect or yield",
		assume: []string{"'nothing further runs' is observed as: the recorder does not grow after the last call (after runtime.Gosched)"}})
	c02Expr(c)
	c02Box(c)
}

// the expression-shape family is part of C02 (second run)
func c02Expr(c *vf.Check) {
	runFam(c, famSpec{id: "C02", fam: "expr", name: "F_expr", sizeQ: "2", sizeT: "3", tapeQ: "2", tapeT: "2", callsQ: 4, callsT: 5,
		keys: fullKeys, truncations: true,
		rule: "F_eff: every program (control flow with effects at every position and effectful yield expressions) up to MaxSize x tapes x EVERY truncation as a separate run; F_expr: every shape of yielded expression (literal / variable / effectful call, plain, negated, parenthesised, argument of a one-argument call) at every position of a small control alphabet, also as for-post; the observation is the interleaving of recorder entries with the consumer's calls (none at construction, exactly those between two yields per MoveNext, none after stop)"})
}

func c02Box(c *vf.Check) {
	runFam(c, famSpec{id: "C02", fam: "box", name: "F_box", sizeQ: "3", sizeT: "4", tapeQ: "2", tapeT: "3", callsQ: 5, callsT: 6,
		keys: fullKeys, opts: srcOpts{Box: true}, rule: ""})
	// the same programs with a struct VALUE element type: the yielded operand is a composite literal
	runFam(c, famSpec{id: "C02", fam: "box", name: "F_boxv", sizeQ: "3", sizeT: "4", tapeQ: "2", tapeT: "3", callsQ: 5, callsT: 6,
		keys: fullKeys, opts: srcOpts{Box: true, BoxVal: true}, rule: ""})
	// ... and with a map element type: the yielded operand is a map literal whose KEY is the computed expression
	runFam(c, famSpec{id: "C02", fam: "box", name: "F_boxm", sizeQ: "3", sizeT: "4", tapeQ: "2", tapeT: "3", callsQ: 5, callsT: 6,
		keys: fullKeys, opts: srcOpts{Box: true, BoxMap: true}, rule: ""})
}

// C03: local state and lexical scoping survive suspension.
func C03(c *vf.Check) {
	runFam(c, famSpec{id: "C03", fam: "scope", name: "F_scope", sizeQ: "3", sizeT: "3", tapeQ: "3", tapeT: "4", callsQ: 5, callsT: 6,
		keys: fullKeys, lazyT: true,
		rule:   "every program of F_scope up to MaxSize: shadowing declarations a := a + 10 in nested blocks and in if / switch / for initialisers, a++ (also as post statement), a closure f := func() { a += 100 } created before any yield and called after, effects and yields observing the variables in scope; x every tape; non-trivial as in C01",
		assume: []string{"closures capturing a three-clause loop variable across iterations (where go<=1.21 and go>=1.22 scoping differ) are the business of F_loopvar, judged under go >= 1.22 semantics (the language version of the scratch modules)"}})
	// range loops: `=` forms assign the function-level variables (observed after the loop), `:=` forms do not
	runFam(c, famSpec{id: "C03", fam: "rscope", name: "F_rscope", sizeQ: "3", sizeT: "4", tapeQ: "2", tapeT: "2", callsQ: 7, callsT: 8,
		keys: fullKeys, budget: 60, rule: ""})
	// a variable read by a yielded composite literal (struct value / pointer to a fresh object) is read when the yield is reached
	runFam(c, famSpec{id: "C03", fam: "box", name: "F_boxv", sizeQ: "3", sizeT: "4", tapeQ: "2", tapeT: "3", callsQ: 5, callsT: 6,
		keys: fullKeys, opts: srcOpts{Box: true, BoxVal: true}, rule: ""})
	// consumer loops whose body re-declares the loop variable (`v := v + 100`, `v, w := f(..)` after a closure captured
	// v): the consumers of MC_Cons.tla with a shadowing body, default configuration
	rule := c.Cov["rule"]
	_, n, _, _, _ := consFamily(c, true)
	c.Add("evaluations", int64(n))
	c.Add("traces_validated_against_impl", int64(n))
	c.Cov["rule"] = fmt.Sprint(rule) + "; plus every consumer function of MC_Cons.tla (C06) whose range loop over an iterator has a body that re-declares the loop variable"
	// loop variables captured by closures: every iteration of `for a := ..; ..; a++` has its own a (go >= 1.22)
	runFam(c, famSpec{id: "C03", fam: "loopvar", name: "F_loopvar", sizeQ: "4", sizeT: "4", tapeQ: "3", tapeT: "5", callsQ: 5, callsT: 6,
		keys: fullKeys, budget: 60, flags: []string{"KF35"}, rule: ""})
}

// C05: YieldFrom splices the delegate's remaining elements, lazily and in order.
func C05(c *vf.Check) {
	runFam(c, famSpec{id: "C05", fam: "yf", name: "F_yf", sizeQ: "3", sizeT: "3", tapeQ: "3", tapeT: "5", callsQ: 6, callsT: 9,
		keys: fullKeys, deleg: true, budget: 40,
		rule:   "every main program of F_yf up to MaxSize over three delegates (two yields with an effect between; maybe-empty; recursive tree walk whose depth is bounded by the tape) with YieldFrom at every statement position including for-post, argument literal or variable; x every tape; every truncation is a prefix of the per-call observation (effects show the one-delegate-step-per-consumer-step lockstep and the single evaluation of the argument)",
		assume: []string{"delegates are fresh instances created by the YieldFrom argument expression; partially consumed delegates are covered by C06"}})
}

// C18: panics surface from the advance that ran the panicking statement.
func C18(c *vf.Check) {
	runFam(c, famSpec{id: "C18", fam: "panic", name: "F_panic", sizeQ: "3", sizeT: "3", tapeQ: "3", tapeT: "4", callsQ: 5, callsT: 6,
		keys: fullKeys, lazyT: true,
		rule:   "every program of the control-flow family with panic(\"boom\") at any statement position (programs without a panic statement are excluded) x every tape; the driver recovers around every MoveNext and records which call panicked with which value; values and effects delivered before must match; non-trivial as in C01",
		assume: []string{"behaviour after the panic is unconstrained by the property: the history ends at the panicking call", "budget exhaustion (r.T / r.E beyond the event budget) is a second source of panics at arbitrary positions inside loops"}})
	// pull loops over an iterator variable that holds no iterator: the nil dereference of `it.MoveNext()` belongs to
	// the step that evaluates the loop condition
	rule := c.Cov["rule"]
	runFam(c, famSpec{id: "C18", fam: "nilit", name: "F_nilit", sizeQ: "3", sizeT: "4", tapeQ: "3", tapeT: "3", callsQ: 4, callsT: 5,
		keys: fullKeys, rule: "F_nilit"})
	c.Cov["rule"] = fmt.Sprint(rule) + "; the panic token is instantiated by a string, an error value, a pointer, a struct value or a genuine runtime error (chosen by the tape) and a recovered value counts as the original only on identity; plus F_nilit: every control-flow program up to MaxSize with at least one pull loop `for it.MoveNext() {..}` over an iterator variable that is nil x every tape: the nil dereference surfaces from the advance that evaluates the loop condition"
}

var _ = fmt.Sprint
