package checks

import (
	"fmt"
	"sort"
	"strings"
	"time"

	"verif/harness/vf"
)

// C12: unsupported constructs are rejected or preserved, never silently mistranslated.
//
// Family F_unsup: a small control alphabet plus exactly ONE construct outside the
// supported subset at any statement position. CoSource gives every construct its
// Go meaning (Desugar), validated against the native rendering. Outcome per program:
//
//	compiler fails (panic with a diagnostic / non-zero exit / output does not build)  -> rejected: fine
//	accepted -> the compiled generator must behave like the specification         -> else VIOLATION
//
// Negative controls (the same constructs inside a closure nested in the generator,
// without a yield inside) must be ACCEPTED and preserved.
func C12(c *vf.Check) {
	calls := tier(c, 8, 9)
	consts := map[string]string{"Family": `"unsup"`, "MaxSize": tier(c, "2", "3"), "TapeLen": tier(c, "3", "3"), "MaxCalls": itoa(calls),
		"Budget": "60", "OpenFlags": "{}", "Lazy": "FALSE"}
	cases, res := collectSrcCases(c, "MC_Src", "MC_Src.cfg", consts, 60*time.Minute)
	c.Note("TLC MC_Src(unsup): %d states, %d cases (%.0fs)", res.Distinct, res.Cases, res.Wall.Seconds())
	run := runSrcFamilyCalls(c, cases, srcOpts{Budget: 60})
	rejected := map[string]int{}
	accepted := map[string]int{}
	for p, st := range run.Status {
		kind := unsupKind(arr(run.Progs[p]))
		if st == "" {
			accepted[kind]++
			continue
		}
		rejected[kind]++
		if strings.HasPrefix(kind, "clo-") {
			src := renderCo(arr(run.Progs[p]))
			c.Violation(J{"family": "F_unsup", "prog": run.Progs[p], "status": st, "source": src},
				fmt.Sprintf("negative control: the construct sits in a closure nested in the generator (no yield inside) and must be accepted, but the compiler fails: %s\n%s", st, src))
		}
	}
	// accepted programs must behave like the source; rejected ones are skipped by judgeSrc
	st := judgeSrc(c, "F_unsup", cases, run, "KF11", fullKeys, renderCo)
	kinds := map[string]bool{}
	for k := range rejected {
		kinds[k] = true
	}
	for k := range accepted {
		kinds[k] = true
	}
	var ks []string
	for k := range kinds {
		ks = append(ks, k)
	}
	sort.Strings(ks)
	for _, k := range ks {
		c.Note("construct %-11s programs accepted=%d rejected=%d", k, accepted[k], rejected[k])
	}
	c.Note("F_unsup: programs=%d cases=%d; accepted programs compared=%d pass=%d violations=%d; spec=native on all cases", len(run.Progs), len(cases), st.Compared, st.Pass, st.Viol)
	wrongSignature(c)
	srcCoverage(c, res, cases, run, st, consts,
		"every program of a small control alphabet (effect, yield, if, for, switch, break/continue/return) up to MaxSize with exactly one construct outside the supported subset at any statement position: labelled break / continue, goto + label, select, defer, fallthrough out of a yielding case, yield in an if initialiser, range over pointer-to-array / func / type-parameter slice; and the same constructs inside a nested non-generator closure as negative controls (must be accepted); x tapes; outcome = rejected (compiler failure or unbuildable output) or accepted-and-equal-to-the-specification; plus a generator with the wrong result signature")
	c.Cov["exhaustive"] = true
	c.Cov["disagreements_checked"] = int64(len(rejected))
	c.Assumptions = append(c.Assumptions, "any failure of the tool (panic with message, non-zero exit, output that does not build) counts as rejection: what the property forbids is output that builds and behaves differently",
		"the meaning of every construct is given by Desugar in CoSource.tla and validated against the native iter.Pull rendering on every case")
}

// wrongSignature: a function that yields but does not return exactly one Iter[T] must be rejected.
func wrongSignature(c *vf.Check) {
	dir := c.S.Sub("sig")
	c.S.WriteModule(dir, "scratch")
	src := "//go:build co\n\npackage p\n\nimport . \"github.com/goghcrow/go-co\"\n\nfunc Bad(n int) (Iter[int], error) {\n\tYield(n)\n\treturn nil, nil\n}\n"
	writeFile(dir+"/p/bad_co.go", src)
	cogen := buildCogen(c)
	out, err := c.S.Run(dir, nil, cogen, "gogen", dir+"/p")
	if err != nil {
		c.Note("wrong result signature: rejected (%s)", vf.Trunc(firstLine(out), 160))
		return
	}
	// accepted: then the output must at least not build into something that silently drops the yield
	if _, berr := c.S.Run(dir, nil, "go", "build", "./p/"); berr != nil {
		c.Note("wrong result signature: accepted by the compiler, output does not build (counts as rejected)")
		return
	}
	c.Violation(J{"source": src}, "a generator with the wrong result signature (Iter[int], error) is accepted and its output builds: the yield is silently mistranslated\n"+src)
}
