package checks

import (
	"bufio"
	"encoding/json"
	"fmt"
	"os"
	"os/exec"
	"strings"
	"time"

	"verif/harness/vf"
)

// drvCommon is linked into every generated driver: it runs the jobs one by one,
// each under a watchdog, and streams one JSON result line per job, so that a
// hang (reported as status "timeout") or a fatal crash of the process (stack
// overflow, reported by the harness as status "crash") is attributed to the job
// that caused it and the remaining jobs are still run.
const drvCommon = `package main

import (
	"bufio"
	"encoding/json"
	"os"
	"strconv"
	"time"
)

type envelope struct {
	I      int             ` + "`json:\"i\"`" + `
	Status string          ` + "`json:\"status\"`" + ` // ok | timeout
	Out    json.RawMessage ` + "`json:\"out,omitempty\"`" + `
}

// serve decodes the job list from stdin and runs jobs[from:] through run.
func serve[I any, O any](run func(I) O) {
	var ins []I
	dec := json.NewDecoder(bufio.NewReaderSize(os.Stdin, 1<<20))
	if err := dec.Decode(&ins); err != nil {
		panic(err)
	}
	from := 0
	if len(os.Args) > 1 {
		from, _ = strconv.Atoi(os.Args[1])
	}
	if len(os.Args) > 2 { // only jobs[from:to]
		if to, err := strconv.Atoi(os.Args[2]); err == nil && to < len(ins) {
			ins = ins[:to]
		}
	}
	limit := 10 * time.Second
	if v := os.Getenv("VERIF_JOB_TIMEOUT_MS"); v != "" {
		ms, _ := strconv.Atoi(v)
		limit = time.Duration(ms) * time.Millisecond
	}
	w := bufio.NewWriterSize(os.Stdout, 1<<20)
	defer w.Flush()
	enc := json.NewEncoder(w)
	timeouts := 0
	for i := from; i < len(ins); i++ {
		done := make(chan O, 1)
		go func(in I) { done <- run(in) }(ins[i])
		select {
		case o := <-done:
			raw, err := json.Marshal(o)
			if err != nil {
				panic(err)
			}
			enc.Encode(envelope{I: i, Status: "ok", Out: raw})
		case <-time.After(limit):
			enc.Encode(envelope{I: i, Status: "timeout"})
			timeouts++
			if timeouts > 32 {
				w.Flush()
				os.Exit(7) // too many spinning goroutines; the harness restarts after this job
			}
		}
		if i%64 == 0 {
			w.Flush()
		}
	}
}
`

// jobResult is the outcome of one driver job.
type jobResult struct {
	Status string // ok | timeout | crash
	Out    json.RawMessage
	Crash  string // tail of stderr for crashes
}

// runDriver feeds the jobs to the driver binary and collects one result per job,
// restarting the process after a fatal crash.
func runDriver(c *vf.Check, dir string, bin string, env []string, jobs any, n int) []jobResult {
	in, err := json.Marshal(jobs)
	vf.Must(err)
	res := make([]jobResult, n)
	from := 0
	restarts := 0
	timeoutRounds := 0
	for from < n {
		cmd := exec.Command(bin, fmt.Sprint(from))
		cmd.Dir = dir
		cmd.Env = c.S.GoEnv(env...)
		cmd.Stdin = strings.NewReader(string(in))
		var se strings.Builder
		cmd.Stderr = &se
		so, err := cmd.StdoutPipe()
		vf.Must(err)
		vf.Must(cmd.Start())
		sc := bufio.NewScanner(so)
		sc.Buffer(make([]byte, 1<<20), 1<<28)
		last := from - 1
		for sc.Scan() {
			var e struct {
				I      int             `json:"i"`
				Status string          `json:"status"`
				Out    json.RawMessage `json:"out"`
			}
			if err := json.Unmarshal(sc.Bytes(), &e); err != nil {
				continue
			}
			res[e.I] = jobResult{Status: e.Status, Out: append(json.RawMessage{}, e.Out...)}
			last = e.I
		}
		werr := cmd.Wait()
		if last == n-1 {
			break
		}
		// the process died while running job last+1 (or exited after too many timeouts)
		restarts++
		if restarts > 60 {
			// every crash so far is attributed to its job; the remaining jobs are not run
			for i := last + 1; i < n; i++ {
				if res[i].Status == "" {
					res[i] = jobResult{Status: "notrun"}
				}
			}
			fmt.Printf("driver crashed %d times; %d remaining jobs not run\n", restarts, n-last-1)
			break
		}
		if os.Getenv("VERIF_DEBUG") != "" {
			fmt.Printf("driver restart %d after job %d: %v\n%s\n", restarts, last+1, werr, vf.Trunc(se.String(), 1500))
		}
		if ee, ok := werr.(*exec.ExitError); ok && ee.ExitCode() == 7 {
			from = last + 1
			timeoutRounds++
			if timeoutRounds >= 1 {
				// more than 32 jobs hang: every one of them is a reported violation already; the remaining jobs are not run
				for i := from; i < n; i++ {
					if res[i].Status == "" {
						res[i] = jobResult{Status: "notrun"}
					}
				}
				fmt.Printf("driver: %d rounds of hanging jobs; %d remaining jobs not run\n", timeoutRounds, n-from)
				break
			}
			continue
		}
		tail := se.String()
		if len(tail) > 1500 {
			tail = tail[:700] + "\n...\n" + tail[len(tail)-700:]
		}
		res[last+1] = jobResult{Status: "crash", Crash: tail}
		from = last + 2
	}
	// a job that timed out is run once more, alone and with six times the limit, before the timeout is
	// believed: a machine under load must not turn into a verdict, a genuine hang times out again
	retried := 0
	for i := 0; i < n && retried < 8; i++ {
		if res[i].Status != "timeout" {
			continue
		}
		retried++
		limit := 60000
		for _, e := range env {
			if strings.HasPrefix(e, "VERIF_JOB_TIMEOUT_MS=") {
				fmt.Sscanf(strings.TrimPrefix(e, "VERIF_JOB_TIMEOUT_MS="), "%d", &limit)
				limit *= 6
			}
		}
		cmd := exec.Command(bin, fmt.Sprint(i), fmt.Sprint(i+1))
		cmd.Dir = dir
		cmd.Env = c.S.GoEnv(append(append([]string{}, env...), fmt.Sprintf("VERIF_JOB_TIMEOUT_MS=%d", limit))...)
		cmd.Stdin = strings.NewReader(string(in))
		out, _ := cmd.Output()
		again := true
		for _, ln := range strings.Split(string(out), "\n") {
			var e struct {
				I      int             `json:"i"`
				Status string          `json:"status"`
				Out    json.RawMessage `json:"out"`
			}
			if json.Unmarshal([]byte(ln), &e) == nil && e.I == i && e.Status == "ok" {
				res[i] = jobResult{Status: "ok", Out: append(json.RawMessage{}, e.Out...)}
				fmt.Printf("job %d: timed out under load, completed when run alone\n", i)
				again = false
			}
		}
		if again {
			break // a genuine hang: the remaining timeouts are believed as well
		}
	}
	return res
}

var _ = os.Getenv
var _ = time.Now
