package checks

import (
	"fmt"
	"strings"
)

// Rendering of source programs (the AST of spec/CoSource.tla) to Go: one
// function per node kind, no knowledge of semantics.
//   coMode  : go-co source (Yield / YieldFrom / Iter), input of the real compiler
//   natMode : native Go 1.23 iter.Seq consumed through iter.Pull (rt.Pull): the
//             reference against which the specification itself is validated

type rmode int

const (
	coMode rmode = iota
	natMode
)

type srcRenderer struct {
	md rmode
	// how the API is referred to in coMode: "" for a dot import, "co." etc.
	api string
	// names of the key / value variables of the enclosing range loops (innermost last)
	kv        [][2]string
	form      string // declaration form of generators in coMode: "" (function) | method | generic | lit | nestedlit
	fn        string // name of the function being rendered (package-level helper names derive from it)
	box       bool   // element type *rt.Box instead of int
	plainVars bool   // co packages: the package-level function variable of odd-numbered programs is declared in plain.go
	boxM      bool   // ... element type rt.BoxM (a map literal whose KEY is the computed expression)
	boxV      bool   // ... element type rt.BoxV (a struct VALUE: the yielded expression is a composite literal)
	gg        bool   // element type Iter[int] (a generator of generators): set per program when it uses ygen
}

func (sr *srcRenderer) kvName(n string) string {
	if len(sr.kv) == 0 {
		return "-7"
	}
	top := sr.kv[len(sr.kv)-1]
	if n == "k" {
		return top[0]
	}
	return top[1]
}

var rangeColl = map[string][2]string{ // kind -> variable, type
	"slice": {"s", "[]int"}, "array": {"arr", "[3]int"}, "string": {"str", "string"}, "int": {"n", "int"}, "chan": {"ch", "chan int"},
	"int0": {"n0", "int"}, "map1": {"m1", "map[int]int"},
	"intc": {"3", "int64"},      // an untyped constant operand with an int64 iteration variable (`=` form only)
	"iter": {"it", "Iter[int]"}, // the local iterator it := D2(r, 3, b): a generator ranging over an iterator
}

var namedColl = map[string]string{"slice": "rt.SliceT", "array": "rt.ArrT", "string": "rt.StrT", "int": "rt.IntT", "chan": "rt.ChanT"}

const rangeProlog = `	s := append(make([]int, 0, 4), 10, 20, 30)
	arr := [3]int{10, 20, 30}
	str := "a\u00e9\xffz"
	n := 3
	ch := make(chan int, 4)
	ch <- 10
	ch <- 20
	close(ch)
	kk, vv, rv, kk64 := -1, -1, rune(-1), int64(-1)
	_ = kk64
	w := [8]int{}
	n0, m1 := 0, map[int]int{7: 70}
	_, _, _, _, _, _, _, _, _, _, _ = s, arr, str, n, ch, kk, vv, rv, w, n0, m1
`

func (sr *srcRenderer) rangeStmt(m J, ind string) string {
	in2 := ind + "\t"
	kind := str(m["kind"])
	coll := rangeColl[kind]
	x := coll[0]
	if m["xf"] == "call" {
		x = fmt.Sprintf("func() %s { r.X(%d); return %s }()", coll[1], num(m["id"]), coll[0])
	}
	name := func(f, def, asg string) (lhs, ref string) {
		switch f {
		case "def":
			return def, def
		case "asg":
			return asg, asg
		case "blank":
			return "_", "-7"
		}
		return "", "-7"
	}
	if kind == "iter" && sr.md == natMode {
		x = "it.All()"
	}
	if m["xf"] == "named" {
		x = namedColl[kind] + "(" + coll[0] + ")"
	}
	kl, kr := name(str(m["kf"]), "k", "kk")
	if m["xf"] == "named" && kind == "int" && m["kf"] == "def" {
		kr = "int(k)"
	}
	vl, vr := name(str(m["vf"]), "v", "vv")
	if m["vf"] == "idx" { // the second operand is indexed by the first
		vl, vr = "w[kk+1]", "-7"
	}
	tok := "="
	if m["kf"] == "def" || m["vf"] == "def" {
		tok = ":="
	}
	hdr := ""
	switch {
	case kl == "" && vl == "":
		hdr = "for range " + x
	case vl == "":
		hdr = "for " + kl + " " + tok + " range " + x
	default:
		hdr = "for " + kl + ", " + vl + " " + tok + " range " + x
	}
	inject := ""
	if kind == "string" { // the value is a rune: observe it as int; `=` form goes through a rune variable
		switch m["vf"] {
		case "def":
			vr = "int(v)"
		case "asg":
			hdr = strings.Replace(hdr, ", vv = range", ", rv = range", 1)
			inject = in2 + "vv = int(rv)\n"
		}
	}
	if kind == "iter" && m["kf"] == "def" {
		inject = in2 + "_ = k\n"
	}
	if kind == "intc" {
		hdr = strings.Replace(hdr, "for kk = range", "for kk64 = range", 1)
		inject = in2 + "kk = int(kk64)\n"
	}
	sr.kv = append(sr.kv, [2]string{kr, vr})
	body := inject + sr.block(m["body"], in2)
	sr.kv = sr.kv[:len(sr.kv)-1]
	if m["wrap"] == "closure" {
		return ind + "func() {\n" + ind + "\t" + hdr + " {\n" + indent(body, "\t") + in2 + "}\n" + ind + "}()\n"
	}
	return ind + hdr + " {\n" + body + ind + "}\n"
}

func (sr *srcRenderer) mutStmt(m J) string {
	j := num(m["j"])
	switch m["op"] {
	case "sset":
		return fmt.Sprintf("if %d < len(s) {\n\ts[%d] = 99\n}", j, j)
	case "sapp":
		return "if len(s) < 4 {\n\ts = append(s, 77)\n}"
	case "strunc":
		return "s = s[:1]"
	case "aset":
		return fmt.Sprintf("arr[%d] = 99", j)
	case "nset":
		return "n = 1"
	case "strset":
		return `str = "z"`
	}
	panic("unknown mutation " + canon(m))
}

func (sr *srcRenderer) vexpr(v any) string {
	m := obj(v)
	switch m["k"] {
	case "lit":
		return itoa(num(m["v"]))
	case "var":
		if n := str(m["n"]); n == "k" || n == "v" {
			return sr.kvName(n)
		}
		return str(m["n"])
	case "add":
		return fmt.Sprintf("%s + %d", str(m["n"]), num(m["d"]))
	case "obs":
		return fmt.Sprintf("r.V(%d, %s)", num(m["id"]), str(m["n"]))
	case "qv":
		return "rt.Level"
	case "pv":
		return "pwrap(" + str(m["n"]) + ")"
	case "fresh":
		if sr.boxM {
			return "rt.BoxM{" + sr.vexpr(m["e"]) + ": 1}"
		}
		if sr.boxV {
			return "rt.BoxV{V: " + sr.vexpr(m["e"]) + "}"
		}
		return "&rt.Box{V: " + sr.vexpr(m["e"]) + "}"
	case "gets":
		return "get()"
	case "pk":
		return "inc1(" + str(m["n"]) + ")"
	case "idg":
		return "idg(" + str(m["n"]) + ")"
	case "swp":
		return "swp(" + str(m["n"]) + ", 1)"
	case "dup":
		return "dup(" + str(m["n"]) + ", 1)"
	case "idi":
		return "idi(" + str(m["n"]) + ")"
	case "unn":
		return "unn(" + str(m["n"]) + ")"
	case "perr":
		return "rt.B2I(ge(" + str(m["n"]) + ") == nil)"
	case "vari":
		return "gv(" + str(m["n"]) + ", " + str(m["n"]) + ")"
	case "ln":
		return `ln("abc")`
	case "cnv":
		return "cnv(int64(" + str(m["n"]) + "))"
	case "neg":
		return "-" + sr.vexpr(m["e"])
	case "paren":
		return "(" + sr.vexpr(m["e"]) + ")"
	case "w1":
		return "r.W(" + sr.vexpr(m["e"]) + ")"
	case "b1":
		return "r.B(" + sr.vexpr(m["e"]) + ")"
	}
	panic("unknown value expression " + canon(m))
}

func (sr *srcRenderer) yield(v string) string {
	if sr.md == coMode {
		return sr.api + "Yield(" + v + ")"
	}
	if sr.box || sr.gg {
		return "rt.YT(yield, " + v + ")"
	}
	return "rt.Y(yield, " + v + ")"
}

// simple renders a simple statement (also used for initialisers and posts).
func (sr *srcRenderer) simple(s any) string {
	m := obj(s)
	switch m["k"] {
	case "eff":
		return fmt.Sprintf("r.E(%d, a, b)", num(m["id"]))
	case "inc":
		return str(m["n"]) + "++"
	case "def":
		return fmt.Sprintf("%s := %s + %d", str(m["n"]), str(m["n"]), num(m["d"]))
	case "def2":
		return "a, b := rt.Two(a, b)"
	case "callf":
		return "f()"
	case "passign":
		return fmt.Sprintf("a = r.P(%d, a)", num(m["id"]))
	case "panic":
		return `panic(r.Boom())`
	case "yield":
		return sr.yield(sr.vexpr(m["v"]))
	case "yfrom":
		call := fmt.Sprintf("D%d(r, %s, b)", num(m["g"]), sr.vexpr(m["arg"]))
		if sr.md == coMode {
			return sr.api + "YieldFrom(" + call + ")"
		}
		return "rt.YF(yield, " + call + ")"
	case "effx":
		return fmt.Sprintf("r.E(%d, %s, 0)", num(m["id"]), sr.vexpr(m["v"]))
	case "effkv":
		return fmt.Sprintf("r.E(%d, %s, %s)", num(m["id"]), sr.kvName("k"), sr.kvName("v"))
	case "effkk":
		return fmt.Sprintf("r.E(%d, kk, vv)", num(m["id"]))
	case "effw":
		return fmt.Sprintf("r.E(%d, w[0], w[1], w[2], w[3], w[4])", num(m["id"]))
	case "mut":
		return sr.mutStmt(m)
	case "iife":
		return fmt.Sprintf("func() {\n\tr.E(%d, a, b)\n\ta++\n}()", num(m["id"]))
	case "nestgen":
		if sr.md == coMode {
			return fmt.Sprintf("%sYieldFrom(func() %sIter[int] {\n\tr.E(%d, a, b)\n\t%sYield(a)\n\ta++\n\t%sYield(a)\n\treturn nil\n}())", sr.api, sr.api, num(m["id"]), sr.api, sr.api)
		}
		return fmt.Sprintf("rt.YF(yield, rt.Pull(func(yield func(int) bool) {\n\tr.E(%d, a, b)\n\trt.Y(yield, a)\n\ta++\n\trt.Y(yield, a)\n}))", num(m["id"]))
	case "pullit":
		return fmt.Sprintf("if it.MoveNext() {\n\tr.E(%d, it.Current(), 0)\n} else {\n\tr.E(%d, -1, 0)\n}", num(m["id"]), num(m["id"]))
	case "ygen":
		return sr.yield(fmt.Sprintf("D%d(r, %s, b)", num(m["g"]), sr.vexpr(m["arg"])))
	case "mk2":
		return "it2 = D2(r, 7, b)"
	case "yfromit":
		if sr.md == coMode {
			return sr.api + "YieldFrom(it)"
		}
		return "rt.YF(yield, it)"
	case "capa":
		return "caps = append(caps, func() int { return a })"
	case "obscaps":
		return fmt.Sprintf("for j, f := range caps {\n\tr.E(%d, j, f())\n}", num(m["id"]))
	case "incq":
		return "rt.Level += 10"
	case "setp":
		return "pscale_" + sr.fn + " = func(x int) int { return x * 100 }"
	case "setcv":
		return "cv = func() bool { return false }"
	case "sets":
		return "s = &box{v: 50}"
	}
	panic("not a simple statement " + canon(m))
}

func (sr *srcRenderer) block(ss any, ind string) string {
	var b strings.Builder
	for _, s := range arr(ss) {
		b.WriteString(sr.stmt(s, ind))
	}
	return b.String()
}

// cond renders a condition; withVar mentions the variable declared by an initialiser
func (sr *srcRenderer) cond(c any, init any) string {
	if isNone(c) {
		return ""
	}
	m := obj(c)
	switch m["k"] {
	case "t":
		if !isNone(init) && obj(init)["k"] == "def" {
			return fmt.Sprintf("r.TA(%d, %s)", num(m["id"]), str(obj(init)["n"]))
		}
		if !isNone(init) && obj(init)["k"] == "def2" {
			return fmt.Sprintf("r.TA(%d, a, b)", num(m["id"]))
		}
		return fmt.Sprintf("r.T(%d)", num(m["id"]))
	case "cv":
		return "cv()"
	case "itn":
		return "it.MoveNext()"
	}
	panic("unknown condition " + canon(m))
}

func (sr *srcRenderer) stmt(s any, ind string) string {
	m := obj(s)
	in2 := ind + "\t"
	switch m["k"] {
	case "def":
		n := str(m["n"])
		return ind + sr.simple(s) + "\n" + ind + "_ = " + n + "\n"
	case "def2":
		return ind + sr.simple(s) + "\n" + ind + "_, _ = a, b\n"
	case "capa", "obscaps", "eff", "inc", "callf", "passign", "panic", "yield", "yfrom", "setcv", "sets", "setp", "incq", "effkv", "effkk", "effw", "mut", "effx", "pullit", "yfromit", "mk2", "ygen", "iife", "nestgen":
		return indent(sr.simple(s), ind)
	case "range":
		return sr.rangeStmt(m, ind)
	case "if":
		hdr := sr.cond(m["c"], m["init"])
		if !isNone(m["init"]) {
			hdr = sr.simple(m["init"]) + "; " + hdr
		}
		out := ind + "if " + hdr + " {\n" + sr.block(m["a"], in2) + ind + "}"
		if b := arr(m["b"]); len(b) > 0 {
			// an else branch that is exactly one if statement is written as an else-if chain for every
			// second condition label (both spellings of the same program occur in the families)
			if inner, ok := b[0].(map[string]any); ok && len(b) == 1 && inner["k"] == "if" && isNone(inner["init"]) && num(obj(m["c"])["id"])%2 == 0 {
				chain := sr.stmt(b[0], ind)
				out += " else " + strings.TrimPrefix(chain, ind)
				return out
			}
			out += " else {\n" + sr.block(m["b"], in2) + ind + "}"
		}
		return out + "\n"
	case "switch":
		form := str(m["form"])
		id := num(obj(m["c"])["id"])
		var hdr string
		switch form {
		case "tag":
			hdr = sr.cond(m["c"], m["init"])
		case "type":
			hdr = fmt.Sprintf("r.Any(%d).(type)", id)
		case "typeb":
			vars := ""
			if !isNone(m["init"]) {
				switch obj(m["init"])["k"] {
				case "def":
					vars = ", " + str(obj(m["init"])["n"])
				case "def2":
					vars = ", a, b"
				}
			}
			hdr = fmt.Sprintf("tv := r.AnyA(%d%s).(type)", id, vars)
		case "notag":
			hdr = ""
		}
		if !isNone(m["init"]) {
			hdr = sr.simple(m["init"]) + "; " + hdr
		}
		var b strings.Builder
		b.WriteString(ind + "switch " + hdr)
		if hdr != "" {
			b.WriteString(" ")
		}
		b.WriteString("{\n")
		for _, cs := range arr(m["cases"]) {
			cm := obj(cs)
			g := str(cm["g"])
			switch {
			case g == "d":
				b.WriteString(ind + "default:\n")
			case form == "tag":
				b.WriteString(ind + "case " + map[string]string{"t": "true", "f": "false"}[g] + ":\n")
			case form == "type" || form == "typeb":
				b.WriteString(ind + "case " + map[string]string{"t": "int", "f": "string"}[g] + ":\n")
				if form == "typeb" && g == "t" {
					b.WriteString(in2 + fmt.Sprintf("r.E(%d, tv, 0)\n", id+1))
				}
			case form == "notag":
				if g == "t" {
					b.WriteString(ind + fmt.Sprintf("case r.T(%d):\n", id))
				} else {
					b.WriteString(ind + fmt.Sprintf("case !r.T(%d):\n", id))
				}
			}
			b.WriteString(sr.block(cm["body"], in2))
			if cm["ft"] == true {
				b.WriteString(in2 + "fallthrough\n")
			}
		}
		b.WriteString(ind + "}\n")
		return b.String()
	case "block":
		return ind + "{\n" + sr.block(m["body"], in2) + ind + "}\n"
	case "for":
		ini, c, p := "", sr.cond(m["c"], m["init"]), ""
		if !isNone(m["init"]) {
			ini = sr.simple(m["init"])
		}
		if !isNone(m["post"]) {
			p = sr.simple(m["post"])
		}
		hdr := "for " + ini + "; " + c + "; " + p + " {\n"
		if ini == "" && p == "" {
			if c == "" {
				hdr = "for {\n"
			} else {
				hdr = "for " + c + " {\n"
			}
		}
		return ind + hdr + sr.block(m["body"], in2) + ind + "}\n"
	case "break":
		return ind + "break\n"
	case "continue":
		return ind + "continue\n"
	case "return":
		if sr.md == coMode {
			return ind + "return nil\n"
		}
		return ind + "return\n"
	case "retx":
		if sr.md == coMode {
			return fmt.Sprintf("%sreturn rt.NilOf[%sIter[int]](r, %d)\n", ind, sr.api, num(m["id"]))
		}
		return fmt.Sprintf("%srt.NilOf[int](r, %d)\n%sreturn\n", ind, num(m["id"]), ind)
	case "unsup":
		return sr.unsup(m, ind)
	}
	panic("unknown statement " + canon(m))
}

// unsup renders a construct outside the supported subset (spec/CoSource.tla, Desugar gives its meaning).
func (sr *srcRenderer) unsup(m J, ind string) string {
	id := num(m["id"])
	Y := func(v string) string { return sr.yield(v) }
	var t string
	switch str(m["u"]) {
	case "lbreak":
		t = fmt.Sprintf("L:\n\tfor r.T(%d) {\n\t\tfor r.T(%d) {\n\t\t\t%s\n\t\t\tbreak L\n\t\t}\n\t}\n", id, id+1, Y("a"))
	case "lcont":
		t = fmt.Sprintf("L:\n\tfor r.T(%d) {\n\t\tfor r.T(%d) {\n\t\t\t%s\n\t\t\tcontinue L\n\t\t}\n\t\tr.E(%d, a, b)\n\t}\n", id, id+1, Y("a"), id+2)
	case "goto":
		t = fmt.Sprintf("if r.T(%d) {\n\tgoto L\n}\n%s\nL:\n\tr.E(%d, a, b)\n", id, Y("a"), id+1)
	case "select":
		t = fmt.Sprintf("select {\ncase v := <-rt.Ch(7):\n\t%s\n}\n", Y("v"))
	case "selbrk":
		t = fmt.Sprintf("select {\ncase v := <-rt.Ch(7):\n\tif r.T(%d) {\n\t\tbreak\n\t}\n\tr.E(%d, v, 0)\n}\n", id, id+1)
	case "defer":
		t = fmt.Sprintf("defer r.E(%d, a, b)\n", id)
	case "fallyield":
		t = fmt.Sprintf("switch r.T(%d) {\ncase true:\n\t%s\n\tfallthrough\ndefault:\n\t%s\n}\n", id, Y("a"), Y("b"))
	case "ifinit":
		t = fmt.Sprintf("if %s; r.T(%d) {\n\tr.E(%d, a, b)\n}\n", Y("a"), id, id+1)
	case "rparr":
		t = fmt.Sprintf("for k, v := range &uarr {\n\tr.E(%d, k, v)\n\t%s\n\tuarr[2] = 99\n}\n", id, Y("v"))
	case "rfunc":
		t = fmt.Sprintf("for v := range rt.Seq3 {\n\t%s\n}\n", Y("v"))
	case "rtparam":
		t = fmt.Sprintf("for _, v := range ts {\n\t%s\n}\n", Y("v"))
	case "parenyield":
		t = "(" + Y("a") + ")\n"
	case "rparrdefer":
		t = fmt.Sprintf("for _, v := range &uarr {\n\tdefer r.E(%d, v, 0)\n}\n", id)
	case "rparrbrk", "rparrcnt":
		jump := map[string]string{"rparrbrk": "break", "rparrcnt": "continue"}[str(m["u"])]
		t = fmt.Sprintf("for k, v := range &uarr {\n\tif r.T(%d) {\n\t\t%s\n\t}\n\tr.E(%d, k, v)\n}\n", id+1, jump, id+2)
	case "fordefer":
		t = fmt.Sprintf("for r.T(%d) {\n\tdefer r.E(%d, a, b)\n}\n", id, id+1)
	case "elifinit":
		t = fmt.Sprintf("if r.T(%d) {\n\tr.E(%d, a, b)\n} else if %s; r.T(%d) {\n\tr.E(%d, a, b)\n}\n", id, id+1, Y("a"), id+2, id+3)
	case "lrange":
		t = fmt.Sprintf("L:\n\tfor _, v := range []int{10, 20} {\n\t\tfor r.T(%d) {\n\t\t\t%s\n\t\t\tcontinue L\n\t\t}\n\t\tr.E(%d, v, 0)\n\t}\n", id, Y("v"), id+2)
	case "clo-lrange":
		t = fmt.Sprintf("func() {\nL:\n\tfor _, v := range []int{10, 20} {\n\t\tfor r.T(%d) {\n\t\t\tr.E(%d, v, 0)\n\t\t\tcontinue L\n\t\t}\n\t\tr.E(%d, v, 0)\n\t}\n}()\n", id, id+1, id+2)
	case "clo-selbrk":
		t = fmt.Sprintf("func() {\n\tselect {\n\tcase v := <-rt.Ch(7):\n\t\tif r.T(%d) {\n\t\t\tbreak\n\t\t}\n\t\tr.E(%d, v, 0)\n\t}\n}()\n", id, id+1)
	case "clo-lbreak":
		t = fmt.Sprintf("func() {\nL:\n\tfor r.T(%d) {\n\t\tfor r.T(%d) {\n\t\t\tr.E(%d, a, b)\n\t\t\tbreak L\n\t\t}\n\t}\n}()\n", id, id+1, id+2)
	case "clo-goto":
		t = fmt.Sprintf("func() {\n\tif r.T(%d) {\n\t\tgoto L\n\t}\n\tr.E(%d, a, b)\nL:\n\tr.E(%d, a, b)\n}()\n", id, id+1, id+2)
	case "clo-select":
		t = fmt.Sprintf("func() {\n\tselect {\n\tcase v := <-rt.Ch(7):\n\t\tr.E(%d, v, 0)\n\t}\n}()\n", id)
	case "clo-defer":
		t = fmt.Sprintf("func() {\n\tdefer r.E(%d, a, b)\n\tr.E(%d, a, b)\n}()\n", id, id+1)
	case "clo-rfunc":
		t = fmt.Sprintf("func() {\n\tfor v := range rt.Seq3 {\n\t\tr.E(%d, v, 0)\n\t}\n}()\n", id)
	case "clo-rparr":
		t = fmt.Sprintf("func() {\n\tfor k, v := range &uarr {\n\t\tr.E(%d, k, v)\n\t}\n}()\n", id)
	case "clo-loopvar":
		t = fmt.Sprintf("func() {\n\tvar fs []func() int\n\tfor i := 0; i < 3; i++ {\n\t\tfs = append(fs, func() int { return i })\n\t}\n\tfor _, f := range fs {\n\t\tr.E(%d, f(), 0)\n\t}\n}()\n", id)
	case "clo-fall":
		t = fmt.Sprintf("func() {\n\tswitch r.T(%d) {\n\tcase true:\n\t\tr.E(%d, a, b)\n\t\tfallthrough\n\tdefault:\n\t\tr.E(%d, a, b)\n\t}\n}()\n", id, id+1, id+2)
	default:
		panic("unknown unsupported construct " + canon(m))
	}
	return indent(t, ind)
}

// unsupKind returns the kind of the (single) unsupported construct of a program, "" if none.
func unsupKind(prog []any) string {
	js := canon(prog)
	i := strings.Index(js, `"u":"`)
	if i < 0 {
		return ""
	}
	rest := js[i+5:]
	return rest[:strings.Index(rest, `"`)]
}

// ---------------------------------------------------------------- Go's terminating-statement rule (syntax only)

func hasBreakFor(ss []any) bool { // an unlabelled break referring to the enclosing for/switch
	for _, s := range ss {
		m := obj(s)
		switch m["k"] {
		case "break":
			return true
		case "if":
			if hasBreakFor(arr(m["a"])) || hasBreakFor(arr(m["b"])) {
				return true
			}
		case "block":
			if hasBreakFor(arr(m["body"])) {
				return true
			}
		}
	}
	return false
}

func terminatingList(ss []any) bool {
	if len(ss) == 0 {
		return false
	}
	return terminating(ss[len(ss)-1])
}

func terminating(s any) bool {
	m := obj(s)
	switch m["k"] {
	case "return", "retx", "panic":
		return true
	case "block":
		return terminatingList(arr(m["body"]))
	case "if":
		return len(arr(m["b"])) > 0 && terminatingList(arr(m["a"])) && terminatingList(arr(m["b"]))
	case "for":
		return isNone(m["c"]) && !hasBreakFor(arr(m["body"]))
	case "switch":
		hasDefault := false
		for _, cs := range arr(m["cases"]) {
			cm := obj(cs)
			if cm["g"] == "d" {
				hasDefault = true
			}
			body := arr(cm["body"])
			if hasBreakFor(body) {
				return false
			}
			if !(terminatingList(body) || cm["ft"] == true) {
				return false
			}
		}
		return hasDefault
	}
	return false
}

// usesKind reports whether the program contains a statement of kind k.
func usesKind(ss []any, k string) bool {
	for _, s := range ss {
		m := obj(s)
		if m["k"] == k {
			return true
		}
		for _, f := range []string{"a", "b", "body"} {
			if sub, ok := m[f].([]any); ok && usesKind(sub, k) {
				return true
			}
		}
		for _, f := range []string{"init", "post"} {
			if sub, ok := m[f].(map[string]any); ok && sub["k"] == k {
				return true
			}
		}
		if cs, ok := m["cases"].([]any); ok {
			for _, c := range cs {
				if usesKind(arr(obj(c)["body"]), k) {
					return true
				}
			}
		}
	}
	return false
}

// optProlog declares the closures of eta shape that the program uses (spec/MC_Src.tla AOpt / ABy).
func optProlog(prog []any, fn string) string {
	js := canon(prog)
	has := func(k string) bool { return strings.Contains(js, `"k":"`+k+`"`) }
	var b strings.Builder
	if has("cv") || has("setcv") {
		b.WriteString("\tcv := func() bool { return r.T(90) }\n\t_ = cv\n")
	}
	if has("gets") || has("sets") {
		b.WriteString("\ts := &box{v: 7}\n\tget := func() int { return s.Get() }\n\t_, _ = s, get\n")
	}
	if has("qv") || has("incq") {
		b.WriteString("\trt.Level = 0\n")
	}
	if has("pk") {
		b.WriteString("\tinc1 := func(x int) int { return pkgInc(x) }\n")
	}
	if has("pv") || has("setp") {
		// a PACKAGE-LEVEL function variable (reset at the start of every run) behind an eta-shaped closure
		b.WriteString("\tpscale_" + fn + " = pscaleInit\n\tpwrap := func(x int) int { return pscale_" + fn + "(x) }\n\t_ = pwrap\n")
	}
	if has("idg") {
		b.WriteString("\tidg := func(x int) int { return ident[int](x) }\n")
	}
	if has("ln") {
		b.WriteString("\tln := func(x string) int { return len(x) }\n")
	}
	if has("swp") {
		b.WriteString("\tswp := func(x, y int) int { return sub2(y, x) }\n")
	}
	if has("dup") {
		b.WriteString("\tdup := func(x, y int) int { return sub2(x, x) }\n")
	}
	if has("idi") {
		b.WriteString("\tidi := func(x int) int { return ident(x) }\n")
	}
	if has("unn") {
		b.WriteString("\tunn := func(int) int { return seven() }\n")
	}
	if has("perr") {
		b.WriteString("\tge := func(x int) error { return mkErr(x) }\n")
	}
	if has("vari") {
		b.WriteString("\tgv := func(xs ...int) int { return count(xs) }\n")
	}
	if has("cnv") {
		b.WriteString("\tcnv := func(x int64) int { return int(x) }\n")
	}
	return b.String()
}

// helpers referenced by the closures of optProlog (declared once per package)
const optDecls = `
type box struct{ v int }

func (b *box) Get() int { return b.v }
func pkgInc(x int) int  { return x + 1 }
func pscaleInit(x int) int { return x + 1000 }
func seven() int           { return 7 }
func sub2(x, y int) int    { return x - y }

type myErr struct{}

func (*myErr) Error() string { return "e" }
func mkErr(x int) *myErr     { return nil }
func count(xs []int) int     { return len(xs) }
func ident[T any](x T) T { return x }
`

// pkgVars declares the package-level function variable of a program that uses one.
func pkgVars(prog []any, fn string) string {
	js := canon(prog)
	if strings.Contains(js, `"k":"pv"`) || strings.Contains(js, `"k":"setp"`) {
		return "\nvar pscale_" + fn + " = pscaleInit\n"
	}
	return ""
}

// inPlainFile: the variable of this program is declared in the ordinary file plain.go of its package
// (identifiers of non-co files are not resolved when the optimiser type-checks the staged files).
func inPlainFile(fn string) bool {
	n := 0
	fmt.Sscanf(strings.TrimLeft(fn, "BG"), "%d", &n)
	return n%2 == 1
}

func (sr *srcRenderer) pkgVarsOf(prog []any, fn string) string {
	if sr.plainVars && inPlainFile(fn) {
		return ""
	}
	return pkgVars(prog, fn)
}

// byFunc renders a bystander: a plain function (no yield) of a processed file.
func (sr *srcRenderer) byFunc(name string, prog []any) string {
	sr.fn = name
	body := sr.block(prog, "\t")
	return fmt.Sprintf("func %s(r *rt.Rec, a, b int) int {\n%s%s\treturn a\n}\n%s", name, optProlog(prog, name), body, sr.pkgVarsOf(prog, name))
}

// genFunc renders one generator function named name.
//
//	trailing: "needed" appends `return nil` only when Go's terminating-statement rule
//	requires it, "always" appends it unconditionally.
func (sr *srcRenderer) genFunc(name string, prog []any, trailing string) string {
	sr.fn = name
	sr.box = strings.Contains(canon(prog), `"k":"fresh"`)
	elem, natIter, pull := "int", "*rt.NIter", "rt.Pull(func(yield func(int) bool) {"
	sr.gg = usesKind(prog, "ygen")
	if sr.gg {
		elem, natIter, pull = sr.api+"Iter[int]", "*rt.NIterT[*rt.NIter]", "rt.PullT(func(yield func(*rt.NIter) bool) {"
	}
	if sr.box {
		elem, natIter, pull = "*rt.Box", "*rt.NIterT[*rt.Box]", "rt.PullT(func(yield func(*rt.Box) bool) {"
		if sr.boxV {
			elem, natIter, pull = "rt.BoxV", "*rt.NIterT[rt.BoxV]", "rt.PullT(func(yield func(rt.BoxV) bool) {"
		}
		if sr.boxM {
			elem, natIter, pull = "rt.BoxM", "*rt.NIterT[rt.BoxM]", "rt.PullT(func(yield func(rt.BoxM) bool) {"
		}
	}
	prolog := ""
	if usesKind(prog, "callf") {
		prolog += "\tf := func() { a += 100 }\n\t_ = f\n"
	}
	iterRange := strings.Contains(canon(prog), `"kind":"iter"`)
	if (usesKind(prog, "range") && !iterRange) || usesKind(prog, "effkk") {
		prolog += rangeProlog
	}
	prolog += optProlog(prog, name)
	if usesKind(prog, "pullit") || usesKind(prog, "yfromit") || usesKind(prog, "mk2") || iterRange {
		prolog += "\tit := D2(r, 3, b)\n\t_ = it\n"
		if usesKind(prog, "mk2") {
			prolog += "\tit2 := it\n\t_ = it2\n"
		}
	}
	if usesKind(prog, "capa") || usesKind(prog, "obscaps") {
		prolog += "\tvar caps []func() int\n"
	}
	if strings.Contains(canon(prog), `"k":"itn"`) {
		// family nilit: the iterator variable holds no iterator
		if sr.md == coMode {
			prolog += "\tvar it " + sr.api + "Iter[int]\n"
		} else {
			prolog += "\tvar it *rt.NIter\n"
		}
	}
	tailDecl := sr.pkgVarsOf(prog, name)
	uk := unsupKind(prog)
	if uk == "rparr" || uk == "clo-rparr" || strings.HasPrefix(uk, "rparr") {
		prolog += "\tuarr := [3]int{10, 20, 30}\n"
	}
	if sr.md == coMode {
		body := sr.block(prog, "\t")
		if trailing == "always" || !terminatingList(prog) {
			body += "\treturn nil\n"
		}
		if uk == "rtparam" { // the generator is generic, ts has a type-parameter type
			return fmt.Sprintf("func %s(r *rt.Rec, a, b int) %sIter[int] { return %sg[[]int](r, a, b, []int{10, 20, 30}) }\n\nfunc %sg[S ~[]int](r *rt.Rec, a, b int, ts S) %sIter[int] {\n%s%s}\n",
				name, sr.api, name, name, sr.api, prolog, body)
		}
		it := sr.api + "Iter[" + elem + "]"
		switch sr.form {
		case "method": // a method generator, reached through a plain wrapper function
			return fmt.Sprintf("type host%s struct{}\n\nfunc (host%s) Gen(r *rt.Rec, a, b int) %s {\n%s%s}\n\nfunc %s(r *rt.Rec, a, b int) %s { return host%s{}.Gen(r, a, b) }\n%s",
				name, name, it, prolog, body, name, it, name, tailDecl)
		case "generic": // a generic generator function, instantiated by a plain wrapper
			return fmt.Sprintf("func %sg[Z any](r *rt.Rec, a, b int, _ Z) %s {\n%s%s}\n\nfunc %s(r *rt.Rec, a, b int) %s { return %sg[string](r, a, b, \"\") }\n%s",
				name, it, prolog, body, name, it, name, tailDecl)
		case "hygiene": // a parameter named like the ELEMENT TYPE (package-level `type a = int`): legal Go, the generated
			// type arguments Bind[a](..) must still denote the type inside the body, where `a` is the variable
			return fmt.Sprintf("func %s(r *rt.Rec, a, b a) %sIter[a] {\n%s%s}\n%s", name, sr.api, prolog, body, tailDecl)
		case "lit": // a function literal bound to a package-level variable
			return fmt.Sprintf("var %s = func(r *rt.Rec, a, b int) %s {\n%s%s}\n%s", name, it, prolog, body, tailDecl)
		case "nestedlit": // a generator literal nested in a generator literal (which delegates to it)
			return fmt.Sprintf("var %s = func(r *rt.Rec, a, b int) %s {\n\tinner := func() %s {\n%s\t}\n\t%sYieldFrom(inner())\n\treturn nil\n}\n%s",
				name, it, it, indent(prolog+body, "\t"), sr.api, tailDecl)
		}
		return fmt.Sprintf("func %s(r *rt.Rec, a, b int) %sIter[%s] {\n%s%s}\n%s", name, sr.api, elem, prolog, body, tailDecl)
	}
	body := sr.block(prog, "\t\t")
	if uk == "rtparam" {
		return fmt.Sprintf("func %s(r *rt.Rec, a, b int) *rt.NIter { return %sg[[]int](r, a, b, []int{10, 20, 30}) }\n\nfunc %sg[S ~[]int](r *rt.Rec, a, b int, ts S) *rt.NIter {\n\treturn rt.Pull(func(yield func(int) bool) {\n%s%s\t})\n}\n",
			name, name, name, indent(prolog, "\t"), body)
	}
	return fmt.Sprintf("func %s(r *rt.Rec, a, b int) %s {\n\treturn %s\n%s%s\t})\n}\n%s", name, natIter, pull, indent(prolog, "\t"), body, tailDecl)
}

// delegates of the delegation family (spec/MC_Src.tla D2, D3, D4)
const delegCo = `
func D2(r *rt.Rec, a, b int) Iter[int] { Yield(a); r.E(91, a, b); Yield(5); return nil }
func D3(r *rt.Rec, a, b int) Iter[int] {
	if r.T(92) {
		Yield(6)
	}
	return nil
}
func D4(r *rt.Rec, a, b int) Iter[int] {
	if r.T(93) {
		YieldFrom(D4(r, a+1, b))
		Yield(a)
		YieldFrom(D4(r, a+1, b))
	}
	return nil
}
`
const delegNat = `
func D2(r *rt.Rec, a, b int) *rt.NIter {
	return rt.Pull(func(yield func(int) bool) { rt.Y(yield, a); r.E(91, a, b); rt.Y(yield, 5) })
}
func D3(r *rt.Rec, a, b int) *rt.NIter {
	return rt.Pull(func(yield func(int) bool) {
		if r.T(92) {
			rt.Y(yield, 6)
		}
	})
}
func D4(r *rt.Rec, a, b int) *rt.NIter {
	return rt.Pull(func(yield func(int) bool) {
		if r.T(93) {
			rt.YF(yield, D4(r, a+1, b))
			rt.Y(yield, a)
			rt.YF(yield, D4(r, a+1, b))
		}
	})
}
`
