package checks

import (
	"encoding/json"
	"fmt"
	"os"

	"verif/harness/vf"
)

// Replay re-runs the single case of a replay file against /repo's current working
// tree: the case is re-rendered, recompiled with the real compiler (source families)
// or rebuilt against the real runtime (terms), run, and compared with the expectation
// stored in the file. Exit 1 (with a VIOLATION line) if it still diverges, 0 if it now
// agrees. Replay files of the other kinds (schedules, range inputs, pipeline scenarios,
// depth measurements) carry the full case description; they are reproduced by re-running
// the property's check, which is deterministic for a given VERIF_SEED.
func Replay(c *vf.Check, path string) {
	data, err := os.ReadFile(path)
	vf.Must(err)
	var f struct {
		Property string `json:"property"`
		Summary  string `json:"summary"`
		Case     J      `json:"case"`
	}
	vf.Must(json.Unmarshal(data, &f))
	fmt.Printf("replay of %s (property %s)\n%s\n\n", path, f.Property, f.Summary)
	cs := f.Case
	expRaw, _ := json.Marshal(cs["expected"])
	switch {
	case cs["prog"] != nil && cs["tape"] != nil && cs["expected"] != nil:
		var ideal []any
		if err := json.Unmarshal(expRaw, &ideal); err != nil {
			fmt.Println("the expectation of this replay file is not a per-call trace; re-run the check instead")
			return
		}
		sc := srcCase{Fam: str(cs["family"]), Prog: arr(cs["prog"]), Tape: cs["tape"], Ideal: ideal, Same: true}
		js := canon(sc.Prog)
		o := srcOpts{Budget: 60, Deleg: true, Opt: true, Box: contains(js, `"k":"fresh"`), GG: contains(js, `"k":"ygen"`),
			BoxVal: str(cs["family"]) == "F_boxv", BoxMap: str(cs["family"]) == "F_boxm"}
		run := runSrcFamilyCalls(c, []srcCase{sc}, o)
		if run.Status[0] != "" {
			fmt.Println("the compiler fails on this program now:", run.Status[0])
			c.Violation(cs, "replayed case: compiler failure: "+run.Status[0])
			return
		}
		out := &run.Outs[0]
		keys := keysOf(ideal)
		real := describeOut(keys, out.Real, out.RealNew, out.RealAft)
		exp := normEvents(ideal, keys...)
		fmt.Printf("source:\n%s\nexpected: %s\nactual:   %s\nnative:   %s\n", renderCo(sc.Prog), exp, real, normEvents(out.Nat, keys...))
		if real != exp {
			c.Violation(cs, "replayed case still diverges")
		} else {
			fmt.Println("the replayed case now agrees with the specification")
		}
		c.Cov["evaluations"] = 1
		c.Cov["distinct_nontrivial"] = 2
		c.Cov["explanation"] = "replay of one recorded case"
	case cs["term"] != nil && cs["expected"] != nil:
		var exp []any
		vf.Must(json.Unmarshal(expRaw, &exp))
		var ops []termOp
		hist := cs["ops"] != nil
		if hist {
			for _, o := range arr(cs["ops"]) {
				ops = append(ops, termOp{Op: str(obj(o)["op"]), Arg: num(obj(o)["arg"])})
			}
		} else {
			for range exp {
				ops = append(ops, termOp{Op: "next"})
			}
		}
		tape := []bool{}
		if cs["tape"] != nil {
			tape = boolTape(cs["tape"])
		}
		outs := runTerms(c, []any{cs["term"]}, []termJob{{Idx: 0, Tape: tape, Budget: 40, Ops: ops}})
		keys := keysOf(exp)
		got := normEvents(outs[0].Evs, keys...)
		want := normEvents(exp, keys...)
		fmt.Printf("term: %s\nexpected: %s\nactual:   %s\n", renderTerm(cs["term"]), want, got)
		if got != want {
			c.Violation(cs, "replayed case still diverges")
		} else {
			fmt.Println("the replayed case now agrees with the specification")
		}
		c.Cov["evaluations"] = 1
		c.Cov["distinct_nontrivial"] = 2
		c.Cov["explanation"] = "replay of one recorded case"
	default:
		fmt.Printf("case description:\n%s\n\nthis kind of case is reproduced by re-running `bin/verifctl check %s` (deterministic for VERIF_SEED)\n", canon(cs), f.Property)
		c.Cov["explanation"] = "replay file printed; re-run the check to reproduce"
		c.Cov["evaluations"] = 1
		c.Cov["distinct_nontrivial"] = 2
	}
}

func contains(s, sub string) bool {
	return len(sub) > 0 && len(s) >= len(sub) && (indexOf(s, sub) >= 0)
}
func indexOf(s, sub string) int {
	for i := 0; i+len(sub) <= len(s); i++ {
		if s[i:i+len(sub)] == sub {
			return i
		}
	}
	return -1
}

// keysOf returns the event keys present in a recorded expectation (so that the comparison uses
// the projection the original check used).
func keysOf(evs []any) []string {
	var keys []string
	if len(evs) == 0 {
		return srcKeys
	}
	m := obj(evs[0])
	for _, k := range []string{"op", "arg", "ok", "val", "cur", "res", "panic", "effs"} {
		if _, ok := m[k]; ok {
			keys = append(keys, k)
		}
	}
	return keys
}
