// Package checks holds one check per property. Every check follows the same
// loop: TLC enumerates the family and emits expected observations (the
// specification is the only oracle), the cases are rendered to Go, run on the
// real compiler / runtime from /repo's working tree, and compared.
package checks

import (
	"encoding/json"
	"fmt"
	"os"
	"path/filepath"
	"sort"
	"strings"

	"verif/harness/vf"
)

type J = map[string]any

func isNone(v any) bool {
	if v == nil {
		return true
	}
	m, ok := v.(map[string]any)
	if !ok {
		return false
	}
	_, ok = m["none"]
	return ok
}

func num(v any) int {
	switch x := v.(type) {
	case float64:
		return int(x)
	case int:
		return x
	case json.Number:
		n, _ := x.Int64()
		return int(n)
	}
	panic(fmt.Sprintf("not a number: %#v", v))
}

func str(v any) string {
	s, _ := v.(string)
	return s
}

func arr(v any) []any {
	if v == nil {
		return nil
	}
	a, ok := v.([]any)
	if !ok {
		// TLC prints an empty sequence/function as [] but an empty record as {}
		if m, ok := v.(map[string]any); ok && len(m) == 0 {
			return nil
		}
		panic(fmt.Sprintf("not an array: %#v", v))
	}
	return a
}

func obj(v any) J {
	m, ok := v.(map[string]any)
	if !ok {
		panic(fmt.Sprintf("not an object: %#v", v))
	}
	return m
}

func canon(v any) string {
	b, err := json.Marshal(v)
	if err != nil {
		panic(err)
	}
	return string(b)
}

func boolTape(v any) []bool {
	out := []bool{}
	for _, x := range arr(v) {
		out = append(out, x.(bool))
	}
	return out
}

// Ev is one observed consumer call: the shared projection of DESIGN.md appendix B.
type Ev struct {
	Op    string  `json:"op"`
	Arg   int     `json:"arg,omitempty"`
	Ok    bool    `json:"ok"`
	Cur   int     `json:"cur"`
	Val   int     `json:"val,omitempty"`
	Res   int     `json:"res,omitempty"`
	Panic string  `json:"panic"`
	Effs  [][]any `json:"effs"`
}

// normEvents renders a list of events (from the spec: []any of objects; from the
// driver: decoded JSON) into a canonical string over the given keys.
func normEvents(evs []any, keys ...string) string {
	var xs []J
	for _, e := range evs {
		m := obj(e)
		x := J{}
		for _, k := range keys {
			v := m[k]
			if k == "effs" {
				if v == nil {
					v = []any{}
				} else if mm, ok := v.(map[string]any); ok && len(mm) == 0 {
					v = []any{}
				}
			}
			if v == nil {
				switch k {
				case "panic", "op":
					v = ""
				case "ok":
					v = false
				default:
					v = 0
				}
			}
			x[k] = v
		}
		xs = append(xs, x)
	}
	if xs == nil {
		xs = []J{}
	}
	return canon(xs)
}

// uniq is an insertion-ordered set of JSON values keyed by canonical form.
type uniq struct {
	idx  map[string]int
	vals []any
}

func newUniq() *uniq { return &uniq{idx: map[string]int{}} }
func (u *uniq) add(v any) int {
	k := canon(v)
	if i, ok := u.idx[k]; ok {
		return i
	}
	i := len(u.vals)
	u.idx[k] = i
	u.vals = append(u.vals, v)
	return i
}

func writeFile(path, content string) {
	vf.Must(os.MkdirAll(filepath.Dir(path), 0o755))
	vf.Must(os.WriteFile(path, []byte(content), 0o644))
}

func sortedKeys[V any](m map[string]V) []string {
	ks := make([]string, 0, len(m))
	for k := range m {
		ks = append(ks, k)
	}
	sort.Strings(ks)
	return ks
}

func indent(s, ind string) string {
	lines := strings.Split(strings.TrimRight(s, "\n"), "\n")
	for i, l := range lines {
		if l != "" {
			lines[i] = ind + l
		}
	}
	return strings.Join(lines, "\n") + "\n"
}

func itoa(n int) string { return fmt.Sprint(n) }

// tier picks the constant for the tier.
func tier[T any](c *vf.Check, quick, thorough T) T {
	if c.Quick() {
		return quick
	}
	return thorough
}
