package checks

import (
	"crypto/sha256"
	"encoding/json"
	"fmt"
	"os"
	"path/filepath"
	"sort"
	"strings"
	"sync"
	"time"

	"verif/harness/vf"
)

// file contents of the pipeline universe (spec/MC_Pipeline.tla content ids)
var pipeContents = map[int]string{
	1: `//go:build co

package p

import . "github.com/goghcrow/go-co"

//go:generate go run github.com/goghcrow/go-co/cmd/cogen

// Numbers yields 0..n-1, then the runes of "ab" twice (sequential and nested range loops of the same kind)
func Numbers(n int) Iter[int] {
	for i := 0; i < n; i++ {
		Yield(i)
	}
	for _, c := range "ab" {
		Yield(int(c))
	}
	for _, c := range "cd" {
		for _, d := range "e" {
			Yield(int(c) + int(d))
		}
	}
	return nil
}

// Digits: a second generator declaration with range loops in the same file
func Digits(xs []int) Iter[int] {
	for _, x := range xs {
		for i := range x {
			Yield(i)
		}
	}
	for k := range map[int]int{1: 1} {
		Yield(k)
	}
	return nil
}

// Words: a third one
func Words(ws []string) Iter[string] {
	for _, w := range ws {
		Yield(w)
	}
	return nil
}

// Evens3 is a generator written as a function LITERAL (the tool attaches its source as a comment)
var Evens3 = func() Iter[int] {
	for i := 0; i < 3; i++ {
		Yield(2 * i)
	}
	return nil
}
`,
	2: `//go:build co

package p

import (
	. "github.com/goghcrow/go-co"
	"github.com/goghcrow/go-co/seq"
)

//go:generate go run github.com/goghcrow/go-co/cmd/cogen

// Numbers (second version) yields n-1..0
func Numbers(n int) Iter[int] {
	for i := n - 1; i >= 0; i-- {
		if i%2 == 0 {
			Yield(i)
			continue
		}
		Yield(-i)
	}
	return nil
}

// countAll names the runtime's iterator type itself: the second version of this file imports the runtime
// package under its own name (what one file calls the runtime must not leak into the output of the files
// visited after it)
func countAll(it seq.Iterator[int]) (n int) {
	for it.MoveNext() {
		n++
	}
	return
}
`,
	3: `package p

type Pair struct{ A, B int }

func (p Pair) Sum() int { return p.A + p.B }
`,
	4: `//go:build co

package p

import (
	"testing"

	. "github.com/goghcrow/go-co"
	"github.com/goghcrow/go-co/seq"
)

func collect(it Iter[int]) (xs []int) {
	for v := range it {
		xs = append(xs, v)
	}
	return
}

// drain names the runtime's iterator type itself: this file imports the runtime package under its own name
// (what a file calls the runtime must not leak into the output of the files visited after it)
func drain(it seq.Iterator[int]) (n int) {
	for it.MoveNext() {
		n++
	}
	return
}

func TestNumbers(t *testing.T) {
	if got := collect(Numbers(3)); len(got) < 3 {
		t.Fatalf("got %v", got)
	}
	if n := drain(Numbers(3)); n < 3 {
		t.Fatalf("drained %d", n)
	}
}
`,
	5: `//go:build co

package p

import co "github.com/goghcrow/go-co"

// Letters is a second generator file of the package, API imported by name
func Letters(s string) co.Iter[rune] {
	for _, r := range s {
		co.Yield(r)
	}
	return nil
}

// Sevens ends with a range over an array VALUE (generated temporary), directly followed by a declaration that
// carries a directive comment
func Sevens() co.Iter[int] {
	for _, v := range [2]int{7, 8} {
		co.Yield(v)
	}
	return nil
}

// lettersHelper must keep its directive
//
//go:noinline
func lettersHelper() int { return 1 }
`,
	6: `//go:build co

package p

import _ "github.com/goghcrow/go-co"

// imports the API but does not use it: the tool must not produce a file for it
func plainHelper() int { return 1 }
`,
	7: `//go:build co

package sub

import . "github.com/goghcrow/go-co"

func Evens(n int) Iter[int] {
	for i := range n {
		if i%2 == 0 {
			Yield(i)
		}
	}
	return nil
}

// Item is an element type declared in a source file of the tool
type Item struct{ N int }
`,
	9: `//go:build co

package p

import (
	. "github.com/goghcrow/go-co"
	"scratch/p/sub"
)

// Doubled consumes a generator of the sub-package
func Doubled(n int) Iter[int] {
	for v := range sub.Evens(n) {
		Yield(v * 2)
	}
	return nil
}
`,
	// 10, 11: only in the hand-written dependency scenario (depScenario), not in the universe of MC_Pipeline
	10: `// Package sub has an ordinary file too (so the package can always be loaded).
package sub

const Doc = "sub"
`,
	11: `//go:build co

package p

import (
	. "github.com/goghcrow/go-co"
	"scratch/p/sub"
)

// Mk wraps a generator of the sub-package in a closure of eta shape
var Mk = func(n int) Iter[int] { return sub.Evens(n) }

// Tripled consumes it
func Tripled(n int) Iter[int] {
	for v := range Mk(n) {
		Yield(v * 3)
	}
	return nil
}

// Items yields elements of a type that is declared in a source file of the sub-package
func Items(xs []sub.Item) Iter[sub.Item] {
	for _, x := range xs {
		Yield(x)
	}
	return nil
}
`,
	8: `//go:build co

package q

import . "github.com/goghcrow/go-co"

func Squares(n int) Iter[int] {
	for i := 1; i <= n; i++ {
		Yield(i * i)
	}
	return nil
}
`,
}

// a stale file of an interrupted earlier run in the tool's temporary directory
const pipeStale = `//go:build !co

// Code generated by github.com/goghcrow/go-co DO NOT EDIT.
package p

import ʂɘʠ "github.com/goghcrow/go-co/seq"

func Old() ʂɘʠ.Iterator[int] {
	return ʂɘʠ.Start[int](ʂɘʠ.Delay[int](func() ʂɘʠ.Seq[int] {
		return ʂɘʠ.Bind[int](1, func() ʂɘʠ.Seq[int] {
			return ʂɘʠ.Normal[int]()
		})
	}))
}
`

var pipeUses = map[int]bool{1: true, 2: true, 4: true, 5: true, 7: true, 8: true, 9: true, 11: true}

type pipeFile struct {
	Dir    []string `json:"dir"`
	Base   string   `json:"base"`
	Suffix string   `json:"suffix"`
	Sha    string   `json:"sha"`
	Tag    string   `json:"tag"`
	Header bool     `json:"header"`
	Uses   bool     `json:"uses"`
}

func splitName(name string) (base, suffix string) {
	for _, s := range []string{"_co_test.go", "_co.go", "_test.go", ".go"} {
		if strings.HasSuffix(name, s) {
			return strings.TrimSuffix(name, s), s
		}
	}
	return name, ""
}

// snapshot lists every file below root (except the module files), with the projection of appendix B.
func snapshot(root string) []pipeFile {
	var out []pipeFile
	filepath.Walk(root, func(p string, info os.FileInfo, err error) error {
		if err != nil {
			return nil
		}
		if info.IsDir() {
			// directories are entries too (suffix "/"): a temporary directory left behind empty must be seen
			if rel, _ := filepath.Rel(root, p); rel != "." {
				out = append(out, pipeFile{Dir: strings.Split(rel, string(filepath.Separator)), Base: "", Suffix: "/", Sha: "dir"})
			}
			return nil
		}
		rel, _ := filepath.Rel(root, p)
		if rel == "go.mod" || rel == "go.sum" {
			return nil
		}
		data, _ := os.ReadFile(p)
		dir := strings.Split(filepath.Dir(rel), string(filepath.Separator))
		if filepath.Dir(rel) == "." {
			dir = []string{}
		}
		base, suffix := splitName(filepath.Base(rel))
		f := pipeFile{Dir: dir, Base: base, Suffix: suffix, Sha: fmt.Sprintf("%x", sha256.Sum256(data))[:16]}
		txt := string(data)
		if strings.HasPrefix(txt, "//go:build ") {
			f.Tag = strings.TrimSpace(strings.SplitN(strings.TrimPrefix(txt, "//go:build "), "\n", 2)[0])
		}
		f.Header = strings.Contains(txt, "// Code generated by github.com/goghcrow/go-co DO NOT EDIT.")
		for id, c := range pipeContents {
			if c == txt {
				f.Uses = pipeUses[id]
			}
		}
		out = append(out, f)
		return nil
	})
	sort.Slice(out, func(i, j int) bool {
		return strings.Join(out[i].Dir, "/")+"/"+out[i].Base+out[i].Suffix < strings.Join(out[j].Dir, "/")+"/"+out[j].Base+out[j].Suffix
	})
	if out == nil {
		out = []pipeFile{}
	}
	return out
}

func pathOf(v any) string { // [[dir..], base, suffix] -> relative path
	a := arr(v)
	var parts []string
	for _, d := range arr(a[0]) {
		parts = append(parts, str(d))
	}
	parts = append(parts, str(a[1])+str(a[2]))
	return filepath.Join(parts...)
}

var pipeContentOf = map[string]int{"p/a_co.go": 1, "p/types.go": 3, "p/a_co_test.go": 4, "p/b_co.go": 5, "p/noapi_co.go": 6, "p/sub/c_co.go": 7, "q/d_co.go": 8, "p/usesub_co.go": 9, "p/sub/doc.go": 10, "p/dep_co.go": 11}

// replayScript replays one scenario on the real tool and returns its trace events.
func replayScript(c *vf.Check, cogen string, script []any, entry string, idx int) []J {
	root := c.S.Sub(fmt.Sprintf("pipe%d", idx))
	c.S.WriteModule(root, "scratch")
	events := []J{{"op": "reset"}}
	put := func(rel string, content string) { writeFile(filepath.Join(root, rel), content) }
	for _, a := range script {
		m := obj(a)
		switch m["op"] {
		case "init":
			for _, f := range arr(m["files"]) {
				rel := pathOf(f)
				put(rel, pipeContents[pipeContentOf[rel]])
			}
		case "add":
			rel := pathOf(m["file"])
			put(rel, pipeContents[pipeContentOf[rel]])
			events = append(events, J{"op": "other"})
		case "del":
			os.Remove(filepath.Join(root, pathOf(m["file"])))
			events = append(events, J{"op": "other"})
		case "edit":
			put("p/a_co.go", pipeContents[2])
			events = append(events, J{"op": "other"})
		case "stale":
			put("p_tmp/old.go", pipeStale)
			events = append(events, J{"op": "other"})
		case "gen":
			var dirParts []string
			for _, d := range arr(m["dir"]) {
				dirParts = append(dirParts, str(d))
			}
			dir := filepath.Join(append([]string{root}, dirParts...)...)
			ev := J{"op": "gen", "dir": dirParts}
			if len(dirParts) == 0 {
				ev["dir"] = []string{}
			}
			if _, err := os.Stat(dir); err != nil { // the package does not exist in this scenario: nothing to run
				events = append(events, J{"op": "other"})
				continue
			}
			ev["before"] = snapshot(root)
			var out string
			var err error
			if entry == "generate" {
				// the documented way: go generate runs cmd/cogen in the package directory
				out, err = c.S.Run(dir, nil, "go", "generate", "-tags", "co", ".")
				if err == nil && !strings.Contains(out, "[rewrite]") && !strings.Contains(out, "visit file") {
					// no directive in this package (only a_co.go carries one): fall back to the library entry point
					out, err = c.S.Run(root, nil, cogen, "gogen", dir)
				}
			} else {
				out, err = c.S.Run(root, nil, cogen, "gogen", dir)
			}
			rc := 0
			if err != nil {
				rc = 1
				ev["diag"] = vf.Trunc(out, 400)
			}
			ev["rc"] = rc
			ev["after"] = snapshot(root)
			rel := "./" + filepath.Join(dirParts...) + "/..."
			if len(dirParts) == 0 {
				rel = "./..."
			}
			status := func(args ...string) int {
				if o, err := c.S.Run(root, nil, "go", args...); err != nil {
					if ev["diag"] == nil {
						ev["diag"] = vf.Trunc(o, 400)
					}
					return 1
				}
				return 0
			}
			ev["build"] = status("build", rel)
			ev["test"] = status("test", "-count=1", rel)
			ev["buildco"] = status("vet", "-tags", "co", rel)
			events = append(events, ev)
		}
	}
	return events
}

// pipelineCheck is the shared body of C15 and C16.
func pipelineCheck(c *vf.Check, entry string, nScripts int, what string) {
	var scripts [][]any
	res := c.S.RunTLC(vf.TLCRun{Module: "MC_Pipeline", Cfg: "MC_Pipeline.cfg", Consts: map[string]string{"MaxLen": tier(c, "3", "4")}, Timeout: 30 * time.Minute,
		OnCase: func(raw []byte) {
			var x struct {
				Script []any `json:"script"`
			}
			vf.Must(json.Unmarshal(raw, &x))
			scripts = append(scripts, x.Script)
		}})
	res.MustComplete("MC_Pipeline")
	c.Note("TLC MC_Pipeline: %d states, %d scenario scripts ending in a tool run; Idempotent / OutputsAreFunctions / NoOutputWithoutUse hold on the ideal tool (%.0fs)", res.Distinct, len(scripts), res.Wall.Seconds())
	// deterministic selection: sort, then every k-th starting at the seed; scripts with every op kind are represented
	sort.Slice(scripts, func(i, j int) bool { return canon(scripts[i]) < canon(scripts[j]) })
	step := len(scripts) / nScripts
	if step < 1 {
		step = 1
	}
	var sel [][]any
	for i := int(c.Seed) % step; i < len(scripts); i += step {
		sel = append(sel, scripts[i])
	}
	// whatever the seed selects, one scenario of each of these shapes is always replayed: a second source b next to
	// a, the tool run before and after a is edited (the bytes of b's output must not depend on a's content) ...
	must := []func(js string) bool{
		func(js string) bool {
			i := strings.Index(js, `"op":"edit"`)
			return i > 0 && strings.Contains(js[:i], `"op":"gen"`) && strings.Contains(js[i:], `"op":"gen"`) && strings.Contains(js, `[["p"],"b","_co.go"]`)
		},
	}
	for _, want := range must {
		have := false
		for _, sc := range sel {
			have = have || want(canon(sc))
		}
		for _, sc := range scripts {
			if !have && want(canon(sc)) {
				sel = append(sel, sc)
				have = true
			}
		}
	}
	cogen := buildCogen(c)
	traces := make([][]J, len(sel))
	var wg sync.WaitGroup
	sem := make(chan struct{}, 8)
	for i := range sel {
		wg.Add(1)
		go func(i int) {
			defer wg.Done()
			sem <- struct{}{}
			defer func() { <-sem }()
			traces[i] = replayScript(c, cogen, sel[i], entry, i)
		}(i)
	}
	wg.Wait()
	// every scenario is additionally repeated once more at the end in a different order position (same contents =>
	// same bytes): the inferred function gen is shared by the whole trace file
	var all []string
	var owner []int
	gens := 0
	for i, tr := range traces {
		for _, e := range tr {
			b, _ := json.Marshal(e)
			all = append(all, string(b))
			owner = append(owner, i)
			if e["op"] == "gen" {
				gens++
			}
		}
	}
	// open known findings are named as-built disjuncts of Trace_Pipeline (each restricted to its layout)
	flags := map[string]string{}
	if c.KF.Open("KF21", c.ID) {
		flags["AsBuiltDep"] = "TRUE"
		for i, tr := range traces {
			for _, e := range tr {
				if e["op"] == "gen" && e["rc"] == 1 && strings.Contains(canon(e["before"]), `"usesub"`) {
					c.Known("KF21", "scenario "+canon(sel[i]))
				}
			}
		}
	}
	lines, own := all, owner
	for round := 0; round < 25 && len(lines) > 0; round++ {
		ok, depth := validateTraceCfg(c, "Trace_Pipeline", "Trace_Pipeline.cfg", strings.Join(lines, "\n")+"\n", flags)
		if ok {
			break
		}
		bad := depth
		if bad >= len(lines) {
			bad = len(lines) - 1
		}
		sc := own[bad]
		var ev J
		json.Unmarshal([]byte(lines[bad]), &ev)
		c.Violation(J{"entry": entry, "script": sel[sc], "rejected_event": ev},
			fmt.Sprintf("[%s] the tool's run is not a behaviour of Pipeline.tla: scenario %s: rejected event: dir=%v rc=%v build=%v test=%v buildco=%v diag=%v\n  before=%s\n  after =%s",
				what, canon(sel[sc]), ev["dir"], ev["rc"], ev["build"], ev["test"], ev["buildco"], ev["diag"], briefFiles(ev["before"]), briefFiles(ev["after"])))
		// drop the offending scenario and validate the rest
		var nl []string
		var no []int
		for k := range lines {
			if own[k] != sc {
				nl = append(nl, lines[k])
				no = append(no, own[k])
			}
		}
		lines, own = nl, no
	}
	// binding self-test: one output hash corrupted in the last gen event must be rejected
	if len(all) > 0 {
		for k := len(all) - 1; k >= 0; k-- {
			if strings.Contains(all[k], `"op":"gen"`) && strings.Contains(all[k], `"header":true`) {
				var ev J
				json.Unmarshal([]byte(all[k]), &ev)
				after := arr(ev["after"])
				for _, f := range after {
					if obj(f)["header"] == true {
						obj(f)["sha"] = "corrupted"
						break
					}
				}
				b, _ := json.Marshal(ev)
				mut := append(append([]string{}, all[:k]...), string(b))
				// the corrupted event must be rejected (given that the prefix is accepted)
				if okPrefix, _ := validateTraceCfg(c, "Trace_Pipeline", "Trace_Pipeline.cfg", strings.Join(all[:k], "\n")+"\n", nil); okPrefix {
					if ok, _ := validateTraceCfg(c, "Trace_Pipeline", "Trace_Pipeline.cfg", strings.Join(mut, "\n")+"\n", nil); ok && k > 0 && strings.Count(strings.Join(all[:k], ""), `"op":"gen"`) > 0 {
						vf.Machinery("binding self-test failed: Trace_Pipeline accepts a trace with a corrupted output hash")
					}
				}
				break
			}
		}
	}
	for i := 0; i < len(sel) && i < 3; i++ {
		c.Sample(J{"entry": entry, "script": sel[i*len(sel)/3]})
	}
	c.Add("states", res.Distinct)
	c.Add("transitions", res.Generated)
	c.Add("traces_validated_against_impl", int64(len(sel)))
	c.Add("evaluations", int64(gens))
	c.Add("distinct_nontrivial", int64(len(sel)))
	c.Note("%s: %d of %d scenarios replayed on the real tool (%d tool runs), traces validated by Trace_Pipeline.tla", what, len(sel), len(scripts), gens)
}

func briefFiles(v any) string {
	var xs []string
	for _, f := range arr(v) {
		m := obj(f)
		var d []string
		for _, x := range arr(m["dir"]) {
			d = append(d, str(x))
		}
		xs = append(xs, filepath.Join(append(d, str(m["base"])+str(m["suffix"]))...)+":"+vf.Trunc(str(m["sha"]), 6))
	}
	return strings.Join(xs, " ")
}

// validateTraceCfg is validateTrace with cfg constant overrides.
func validateTraceCfg(c *vf.Check, module, cfg, trace string, consts map[string]string) (bool, int) {
	f := filepath.Join(c.S.Sub("trace"), "trace.ndjson")
	vf.Must(os.WriteFile(f, []byte(trace), 0o644))
	res := c.S.RunTLC(vf.TLCRun{Module: module, Cfg: cfg, Consts: consts, Env: []string{"VERIF_TRACE=" + f}, Workers: 1, Timeout: 10 * time.Minute})
	if res.Completed && res.Violated == "" {
		return true, res.Depth - 1
	}
	if !strings.Contains(res.Violated+res.Tail, "TraceAccepted") {
		vf.Machinery("trace validation with %s failed for another reason than rejection:\n%s", module, res.Tail)
	}
	return false, res.Depth - 1
}

// rootScenario: the package directory is the module root (KF12).
func rootScenario(c *vf.Check, id string) {
	cogen := buildCogen(c)
	root := c.S.Sub("rootpkg")
	c.S.WriteModule(root, "scratch")
	writeFile(filepath.Join(root, "a_co.go"), strings.Replace(pipeContents[1], "package p", "package scratch", 1))
	ev := J{"op": "gen", "dir": []string{}, "before": snapshot(root)}
	out, err := c.S.Run(root, nil, cogen, "gogen", root)
	rc := 0
	if err != nil {
		rc = 1
		ev["diag"] = vf.Trunc(out, 300)
	}
	ev["rc"] = rc
	ev["after"] = snapshot(root)
	// anything the tool left next to the module directory?
	if _, err := os.Stat(root + "_tmp"); err == nil {
		ev["after"] = append(ev["after"].([]pipeFile), pipeFile{Dir: []string{"p_tmp"}, Base: "left-behind", Suffix: ".go"})
		os.RemoveAll(root + "_tmp")
	}
	st := func(args ...string) int {
		if _, err := c.S.Run(root, nil, "go", args...); err != nil {
			return 1
		}
		return 0
	}
	ev["build"] = st("build", "./...")
	ev["test"] = st("test", "-count=1", "./...")
	ev["buildco"] = st("vet", "-tags", "co", "./...")
	b, _ := json.Marshal(ev)
	ev = J{}
	json.Unmarshal(b, &ev)
	for _, k := range []string{"before", "after"} { // the renamed copy of content 1 uses the API
		for _, f := range arr(ev[k]) {
			if m := obj(f); m["suffix"] == "_co.go" {
				m["uses"] = true
			}
		}
	}
	b, _ = json.Marshal(ev)
	trace := `{"op":"reset"}` + "\n" + string(b) + "\n"
	if ok, _ := validateTraceCfg(c, "Trace_Pipeline", "Trace_Pipeline.cfg", trace, nil); ok {
		c.Note("module-root scenario: accepted by the ideal specification")
		return
	}
	if c.KF.Open("KF12", id) {
		if ok, _ := validateTraceCfg(c, "Trace_Pipeline", "Trace_Pipeline.cfg", trace, map[string]string{"AsBuiltRoot": "TRUE"}); ok {
			c.Known("KF12", "GoGen in a package directory that is the module root: before="+briefFiles(ev["before"])+" after="+briefFiles(ev["after"]))
			return
		}
	}
	c.Violation(J{"scenario": "package at the module root", "event": ev}, fmt.Sprintf("GoGen in the module root directory: not a behaviour of Pipeline.tla: rc=%v before=%s after=%s", ev["rc"], briefFiles(ev["before"]), briefFiles(ev["after"])))
}

// depScenario: a source that wraps a generator of a sub-package of the same run in an eta-shaped closure; the
// sub-package also has an ordinary file. The tool is run three times on unchanged sources: every run must
// reproduce the same bytes (the second run finds the generated files of the first one on disk).
func depScenario(c *vf.Check, entry string) {
	cogen := buildCogen(c)
	F := func(dir []string, base, suffix string) []any {
		d := []any{}
		for _, x := range dir {
			d = append(d, x)
		}
		return []any{d, base, suffix}
	}
	script := []any{
		J{"op": "init", "files": []any{F([]string{"p"}, "dep", "_co.go"), F([]string{"p", "sub"}, "c", "_co.go"), F([]string{"p", "sub"}, "doc", ".go")}},
		J{"op": "gen", "dir": []any{"p"}}, J{"op": "gen", "dir": []any{"p"}}, J{"op": "gen", "dir": []any{"p"}},
	}
	tr := replayScript(c, cogen, script, entry, 9000)
	var lines []string
	for i, e := range tr {
		b, _ := json.Marshal(e)
		lines = append(lines, string(b))
		tr[i] = J{}
		json.Unmarshal(b, &tr[i])
	}
	trace := strings.Join(lines, "\n") + "\n"
	c.Add("scenarios", 1)
	if ok, _ := validateTraceCfg(c, "Trace_Pipeline", "Trace_Pipeline.cfg", trace, nil); ok {
		c.Note("dependency scenario (closure over a generator of a sub-package, three runs): accepted by the ideal specification")
		return
	}
	what := ""
	for _, e := range tr {
		if e["op"] == "gen" {
			what += fmt.Sprintf(" rc=%v after=%s;", e["rc"], briefFiles(e["after"]))
		}
	}
	// KF34 (open): the output of the first run differs from the later ones when an element type comes from a package
	// of the same run that has no generated file yet (named clause ProvisionalDep of Trace_Pipeline.tla)
	if c.KF.Open("KF34", c.ID) {
		if ok, _ := validateTraceCfg(c, "Trace_Pipeline", "Trace_Pipeline.cfg", trace, map[string]string{"AsBuiltDepType": "TRUE"}); ok {
			c.Known("KF34", "p/dep_co.go (Items yields sub.Item, declared in p/sub/c_co.go), three runs of the tool in p on unchanged sources:"+what)
			return
		}
	}
	c.Violation(J{"scenario": "closure over a generator of a sub-package, three runs on unchanged sources", "script": script, "events": tr},
		"repeated runs on unchanged sources are not a behaviour of Pipeline.tla (same source => same bytes):"+what)
}

// pathScenario: "_co" also occurs elsewhere in the path (package directory app_core, files rune_codec_co.go and
// rune_codec_co_test.go): the derived names are still <base>.go / <base>_test.go next to the sources.
func pathScenario(c *vf.Check, entry string) {
	pipeContents[12] = strings.Replace(pipeContents[1], "package p", "package app_core", 1)
	pipeContents[13] = strings.Replace(pipeContents[4], "package p", "package app_core", 1)
	pipeUses[12], pipeUses[13] = true, true
	pipeContentOf["app_core/rune_codec_co.go"], pipeContentOf["app_core/rune_codec_co_test.go"] = 12, 13
	cogen := buildCogen(c)
	script := []any{
		J{"op": "init", "files": []any{[]any{[]any{"app_core"}, "rune_codec", "_co.go"}, []any{[]any{"app_core"}, "rune_codec", "_co_test.go"}}},
		J{"op": "gen", "dir": []any{"app_core"}}, J{"op": "gen", "dir": []any{"app_core"}},
	}
	tr := replayScript(c, cogen, script, entry, 9001)
	var lines []string
	for i, e := range tr {
		b, _ := json.Marshal(e)
		lines = append(lines, string(b))
		tr[i] = J{}
		json.Unmarshal(b, &tr[i])
	}
	c.Add("scenarios", 1)
	if ok, _ := validateTraceCfg(c, "Trace_Pipeline", "Trace_Pipeline.cfg", strings.Join(lines, "\n")+"\n", nil); ok {
		c.Note("path scenario (\"_co\" elsewhere in directory and file names, two runs): accepted by the ideal specification")
		return
	}
	what := ""
	for _, e := range tr {
		if e["op"] == "gen" {
			what += fmt.Sprintf(" rc=%v build=%v test=%v after=%s;", e["rc"], e["build"], e["test"], briefFiles(e["after"]))
		}
	}
	c.Violation(J{"scenario": "\"_co\" elsewhere in the path", "script": script, "events": tr},
		"package directory app_core with rune_codec_co.go / rune_codec_co_test.go: the tool's runs are not a behaviour of Pipeline.tla:"+what)
}

// C15: generated output is deterministic and independent of unrelated inputs.
func C15(c *vf.Check) {
	pipelineCheck(c, "gogen", tier(c, 48, 400), "rewriter.GoGen")
	depScenario(c, "gogen")
	c.Cov["rule"] = "scenario scripts enumerated by TLC over a universe of a generator source (two versions), plain sibling, test source, second source, source importing but not using the API, sub-package, second package, stale temporary directory; a seeded selection is replayed on the real tool in production mode (unique-name counter on); directory snapshots (path, sha256, build constraint, header) before/after every tool run are validated by Trace_Pipeline.tla, whose inferred function source-content -> output-content must stay a function across ALL runs of ALL scenarios (determinism; independence of other files, packages, earlier outputs); the first source version contains sequential and nested range loops of the same kind (unique helper identifiers: the output must build)"
	c.Assumptions = append(c.Assumptions, "byte identity is observed as sha256 of the files; TLA+ sees content ids only")
}

// C16: go:generate mode writes exactly the derived files and is idempotent.
func C16(c *vf.Check) {
	pipelineCheck(c, "generate", tier(c, 32, 300), "go generate -> cmd/cogen")
	rootScenario(c, "C16")
	depScenario(c, "generate")
	pathScenario(c, "generate")
	c.Cov["rule"] = "the same scenario space, entry point `go generate -tags co` running cmd/cogen through the //go:generate directive (library entry point for packages without a directive); after every tool run: exactly the derived siblings with !co constraint and header, nothing else created/modified/left behind (no temporary directory), go build / go test without the tag and go vet -tags co succeed, and a later run with the same sources reproduces the same bytes; plus the layout in which the package directory is the module root"
	c.Assumptions = append(c.Assumptions, "type-checking with the co tag is observed through `go vet -tags co`")
}
