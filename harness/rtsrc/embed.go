package rt

import _ "embed"

// Source is this package's own source, copied into every scratch module.
//
//go:embed rt.go
var Source string
