// Package rt is the tiny runtime linked into every rendered program: the
// recorder (effect log, input tape, event budget -- the Go twin of spec/Rec.tla)
// and the adaptor that turns a native Go 1.23 iter.Seq into a pull-style
// iterator (the native reference the specification is validated against).
package rt

import (
	"errors"
	"fmt"
	"iter"
	"math"
	"runtime"
)

type Rec struct {
	Log    [][]any
	Tape   []bool
	Budget int
	PK     int // which Go value instantiates the specification's panic token "boom" (PanicKind of Rec.tla)

	// C17: periodic tape and call-depth probe
	Pattern   []bool // when set, an exhausted Tape is refilled from Pattern, Repeat times
	Repeat    int
	Quiet     bool     // do not append tape reads to Log (millions of iterations)
	Probe     bool     // sample the call depth at recorder events number 10, 100, 1000, ... of every advance
	Adv       int      // number of the current advance (ResetProbe)
	Reads     int      // number of recorder events so far in this advance
	Samples   [][3]int // (advance, event number, depth in frames)
	LastDepth [2]int
	pcs       []uintptr
}

func NewRec(tape []bool, budget int) *Rec {
	return &Rec{Tape: append([]bool{}, tape...), Budget: budget, Log: [][]any{}, PK: PanicKind(tape)}
}

// PanicKind is PanicKind of spec/Rec.tla: (length + number of TRUE entries of the initial tape) mod 5.
func PanicKind(tape []bool) int {
	n := len(tape)
	for _, b := range tape {
		if b {
			n++
		}
	}
	return n % 5
}

type boomT struct {
	A int
	B string
}

var (
	ErrBoom = errors.New("boom")
	PtrBoom = &boomT{1, "boom"}
	valBoom = boomT{7, "boom"}
)

const nilMapText = "assignment to entry in nil map"

// Boom returns the Go value that stands for the specification's panic token "boom" in this run:
// a string, an error value, a pointer, a struct value; kind 4 raises a genuine runtime error instead.
func (r *Rec) Boom() any {
	switch r.PK {
	case 1:
		return ErrBoom
	case 2:
		return PtrBoom
	case 3:
		return valBoom
	case 4:
		var m map[int]int
		m[0] = 1
	}
	return "boom"
}

// PanicStr maps a recovered panic value back to the specification's vocabulary: the token "boom" only
// for the ORIGINAL value (identity for errors and pointers, equality for values, a runtime.Error with
// the original text), otherwise a description that equals no expectation of the specification.
func PanicStr(p any) string {
	switch v := p.(type) {
	case string:
		return v
	case *boomT:
		if v == PtrBoom {
			return "boom"
		}
	case boomT:
		if v == valBoom {
			return "boom"
		}
	case error:
		if v == ErrBoom {
			return "boom"
		}
		if re, ok := v.(runtime.Error); ok && re.Error() == nilMapText {
			return "boom"
		}
		if _, ok := v.(runtime.Error); ok {
			return fmt.Sprint(p) // other runtime errors are compared by their text (index out of range ...)
		}
	}
	return fmt.Sprintf("(%T) %v", p, p)
}

func (r *Rec) spend() {
	if r.Budget == 0 {
		panic("budget")
	}
	r.Budget--
	if r.Probe {
		r.Reads++
		if ProbeAll || isPow10(r.Reads) {
			r.Samples = append(r.Samples, [3]int{r.Adv, r.Reads, r.depth()})
		}
	}
}

func (r *Rec) log(tag string, id int, vals ...int) {
	r.spend()
	if r.Quiet {
		return
	}
	e := make([]any, 0, 2+len(vals))
	e = append(e, tag, id)
	for _, v := range vals {
		e = append(e, v)
	}
	r.Log = append(r.Log, e)
}

// E is an effect statement observing the values of variables.
func (r *Rec) E(id int, vals ...int) { r.log("e", id, vals...) }

// P is the effect of a post statement `x = r.P(id, x)`: logs x, returns x+1.
func (r *Rec) P(id, x int) int { r.log("p", id, x); return x + 1 }

// R logs a value received through BindRecv / Send.
func (r *Rec) R(id, x int) { r.log("r", id, x) }

// V is an effectful expression: logs and returns x.
func (r *Rec) V(id, x int) int { r.log("v", id, x); return x }

// MK / MV encode map keys and values of the map-range scenarios: key 0 is the nil
// interface key, a nil value is -1.
func MK(k int) any {
	if k == 0 {
		return nil
	}
	if k == 4 {
		return math.NaN() // a key that is not equal to itself
	}
	return k
}
func UK(k any) int {
	if k == nil {
		return 0
	}
	if f, ok := k.(float64); ok && f != f {
		return 4
	}
	return k.(int)
}
func MV(k, nilval int) any {
	if k == nilval {
		return nil
	}
	return 10 * k
}
func UV(v any) int {
	if v == nil {
		return -1
	}
	return v.(int)
}

// X logs the evaluation of a range expression.
func (r *Rec) X(id int) { r.log("x", id, 0) }

// Ch returns a channel holding one value (select statements).
func Ch(v int) chan int {
	ch := make(chan int, 1)
	ch <- v
	return ch
}

// Seq3 is a range-over-func sequence yielding 1, 2, 3.
func Seq3(yield func(int) bool) {
	for i := 1; i <= 3; i++ {
		if !yield(i) {
			return
		}
	}
}

// named types with the underlying types of the ranged collections
type (
	SliceT []int
	ArrT   [3]int
	StrT   string
	IntT   int
	ChanT  chan int
)

// Level is a package-level variable read by generators through a qualified identifier (rt.Level).
var Level int

// B2I converts a bool to 0 / 1.
func B2I(b bool) int {
	if b {
		return 1
	}
	return 0
}

// Two returns two values from one call (initialisers declaring two names).
func Two(a, b int) (int, int) { return a + 10, b + 1 }

// W is a ONE-argument effectful call: logs and returns x.
func (r *Rec) W(x int) int { r.log("w", x); return x }

// B is a one-argument call that panics.
func (r *Rec) B(x int) int { panic(r.Boom()) }

// NilOf is the operand of `return <expr>` in a generator: evaluated, logged, discarded.
func NilOf[T any](r *Rec, id int) (z T) { r.log("v", id, 0); return }

// N logs the construction of a generator instance (arguments).
func (r *Rec) N(id int, vals ...int) { r.log("n", id, vals...) }

// T reads the next bit of the input tape (false when exhausted).
func (r *Rec) depth() int {
	if r.pcs == nil {
		r.pcs = make([]uintptr, 1<<22)
	}
	return runtime.Callers(0, r.pcs)
}

// ResetProbe starts the event count of a new advance.
func (r *Rec) ResetProbe() { r.Adv++; r.Reads = 0 }

func isPow10(n int) bool {
	for n >= 10 && n%10 == 0 {
		n /= 10
	}
	return n == 1
}

// ProbeAll samples the depth at every tape read (delegation-depth series).
var ProbeAll = false

func (r *Rec) T(id int) bool {
	r.spend()
	if len(r.Tape) == 0 && r.Repeat > 0 {
		r.Repeat--
		r.Tape = r.Pattern
	}
	if r.Quiet {
		if len(r.Tape) == 0 {
			return false
		}
		b := r.Tape[0]
		r.Tape = r.Tape[1:]
		return b
	}
	if len(r.Tape) == 0 {
		r.Log = append(r.Log, []any{"t", id, 0})
		return false
	}
	b := r.Tape[0]
	r.Tape = r.Tape[1:]
	v := 0
	if b {
		v = 1
	}
	r.Log = append(r.Log, []any{"t", id, v})
	return b
}

// Any is the operand of type switches: an int when the tape says true, a string otherwise.
func (r *Rec) Any(id int) any {
	if r.T(id) {
		return 1
	}
	return "s"
}

// AnyA is Any for type switches whose initialiser declares variables that must be mentioned.
func (r *Rec) AnyA(id int, _ ...int) any { return r.Any(id) }

// TA is T for conditions that must mention a variable declared by an initialiser.
func (r *Rec) TA(id int, _ ...int) bool { return r.T(id) }

// ---------------------------------------------------------------- native reference

type stopT struct{}

var sentinel = &stopT{}

// Y is `Yield(v)` of the native rendering: if the consumer stopped, unwind.
func Y(yield func(int) bool, v int) {
	if !yield(v) {
		panic(sentinel)
	}
}

// NIter adapts iter.Pull to the MoveNext/Current protocol.
type NIter struct {
	next func() (int, bool)
	stop func()
	cur  int
}

func Pull(f func(yield func(int) bool)) *NIter {
	var seq iter.Seq[int] = func(yield func(int) bool) {
		defer func() {
			if p := recover(); p != nil && p != any(sentinel) {
				panic(p)
			}
		}()
		f(yield)
	}
	next, stop := iter.Pull(seq)
	return &NIter{next: next, stop: stop}
}

func (n *NIter) MoveNext() bool {
	v, ok := n.next()
	if ok {
		n.cur = v
	} else {
		n.cur = 0
	}
	return ok
}
func (n *NIter) Current() int { return n.cur }
func (n *NIter) Stop()        { n.stop() }

// Box is the element type of generators yielding freshly allocated objects.
type Box struct{ V int }

// YT / PullT / NIterT: the native reference for generators of any element type.
func YT[T any](yield func(T) bool, v T) {
	if !yield(v) {
		panic(sentinel)
	}
}

type NIterT[T any] struct {
	next func() (T, bool)
	stop func()
	cur  T
}

func PullT[T any](f func(yield func(T) bool)) *NIterT[T] {
	var seq iter.Seq[T] = func(yield func(T) bool) {
		defer func() {
			if p := recover(); p != nil && p != any(sentinel) {
				panic(p)
			}
		}()
		f(yield)
	}
	next, stop := iter.Pull(seq)
	return &NIterT[T]{next: next, stop: stop}
}

func (n *NIterT[T]) MoveNext() bool {
	v, ok := n.next()
	var zero T
	if ok {
		n.cur = v
	} else {
		n.cur = zero
	}
	return ok
}
func (n *NIterT[T]) Current() T { return n.cur }
func (n *NIterT[T]) Stop()      { n.stop() }

// BoxIt adapts an iterator of *Box to the int protocol of the drivers: the consumer reads the
// field of every delivered object once and then MUTATES the object (so a generator that hands out
// the same object twice, instead of a fresh one per evaluation, is observable).
type BoxIt struct {
	In interface {
		MoveNext() bool
		Current() *Box
	}
	cur int
}

func (b *BoxIt) MoveNext() bool {
	ok := b.In.MoveNext()
	b.cur = 0
	if ok {
		if p := b.In.Current(); p != nil {
			b.cur = p.V
			p.V += 98
		}
	}
	return ok
}
func (b *BoxIt) Current() int { return b.cur }
func (b *BoxIt) Stop() {
	if s, ok := b.In.(interface{ Stop() }); ok {
		s.Stop()
	}
}

// BoxV is the element type of generators yielding struct VALUES (composite literals).
type BoxV struct{ V int }

// BoxVIt adapts an iterator of BoxV to the int protocol of the drivers.
type BoxVIt struct {
	In interface {
		MoveNext() bool
		Current() BoxV
	}
	cur int
}

func (b *BoxVIt) MoveNext() bool {
	ok := b.In.MoveNext()
	b.cur = 0
	if ok {
		b.cur = b.In.Current().V
	}
	return ok
}
func (b *BoxVIt) Current() int { return b.cur }
func (b *BoxVIt) Stop() {
	if s, ok := b.In.(interface{ Stop() }); ok {
		s.Stop()
	}
}

// BoxM is the element type of generators yielding MAP literals whose KEY is the computed expression
// (map[int]int{e: 1}): a keyed composite literal is effect-free only if its keys are.
type BoxM map[int]int

// BoxMIt adapts an iterator of BoxM to the int protocol of the drivers: it reads the single key of every
// delivered map and then mutates the map.
type BoxMIt struct {
	In interface {
		MoveNext() bool
		Current() BoxM
	}
	cur int
}

func (b *BoxMIt) MoveNext() bool {
	ok := b.In.MoveNext()
	b.cur = 0
	if ok {
		m := b.In.Current()
		for k := range m {
			b.cur = k
		}
		if m != nil {
			delete(m, b.cur)
			m[b.cur+98] = 2
		}
	}
	return ok
}
func (b *BoxMIt) Current() int { return b.cur }
func (b *BoxMIt) Stop() {
	if s, ok := b.In.(interface{ Stop() }); ok {
		s.Stop()
	}
}

// IntIt is the int protocol of the drivers.
type IntIt interface {
	MoveNext() bool
	Current() int
}

// GGIt is the flattening consumer of a generator of generators (spec: GGStep in CoSource.tla): it keeps every
// handle the outer generator has delivered and, per MoveNext, performs actions in cyclic order
// outer, handle 1, ..., handle n until an inner iterator delivers a value or a whole cycle was unproductive.
type GGIt[H IntIt] struct {
	In interface {
		MoveNext() bool
		Current() H
	}
	hs  []H
	pos int
	cur int
}

func (g *GGIt[H]) MoveNext() bool {
	g.cur = 0
	for idle := 0; idle <= len(g.hs); {
		n := len(g.hs)
		if g.pos == 0 {
			if g.In.MoveNext() {
				g.hs = append(g.hs, g.In.Current())
				g.pos, idle = 1, 0
			} else {
				if n > 0 {
					g.pos = 1
				}
				idle++
			}
			continue
		}
		h := g.hs[g.pos-1]
		g.pos = (g.pos + 1) % (n + 1)
		if h.MoveNext() {
			g.cur = h.Current()
			return true
		}
		idle++
	}
	return false
}
func (g *GGIt[H]) Current() int { return g.cur }

// YF is `YieldFrom(it)` of the native rendering.
func YF(yield func(int) bool, it *NIter) {
	for it.MoveNext() {
		Y(yield, it.Current())
	}
}

// All adapts a pull iterator to range-over-func (native consumers).
func (n *NIter) All() iter.Seq[int] {
	return func(yield func(int) bool) {
		for n.MoveNext() {
			if !yield(n.Current()) {
				return
			}
		}
	}
}
