// verifctl runs the checks of /verif/MANIFEST.json:
//
//	verifctl check <ID> [--tier quick|thorough]
package main

import (
	"fmt"
	"os"

	"verif/harness/checks"
	"verif/harness/vf"
)

type entry struct {
	level string
	run   func(*vf.Check)
}

var registry = map[string]entry{
	"C01": {"model_checking", checks.C01},
	"C02": {"model_checking", checks.C02},
	"C03": {"model_checking", checks.C03},
	"C04": {"model_checking", checks.C04},
	"C05": {"model_checking", checks.C05},
	"C18": {"model_checking", checks.C18},
	"C17": {"model_checking", checks.C17},
	"C15": {"model_checking", checks.C15},
	"C16": {"model_checking", checks.C16},
	"C14": {"model_checking", checks.C14},
	"C06": {"model_checking", checks.C06},
	"C07": {"translation_validation", checks.C07},
	"C13": {"model_checking", checks.C13},
	"C12": {"model_checking", checks.C12},
	"C08": {"model_checking", checks.C08},
	"C10": {"model_checking", checks.C10},
	"C11": {"model_checking", checks.C11},
	"C09": {"model_checking", checks.C09},
}

func main() {
	if len(os.Args) >= 3 && os.Args[1] == "replay" {
		// evidence of a replay goes to a scratch location: it is not a check of the manifest
		if os.Getenv("VERIF_EVIDENCE_DIR") == "" {
			os.Setenv("VERIF_EVIDENCE_DIR", os.TempDir()+"/verif-replay-evidence")
		}
		os.Exit(vf.RunCheck("replay", "quick", "other", func(c *vf.Check) { checks.Replay(c, os.Args[2]) }))
	}
	if len(os.Args) < 3 || os.Args[1] != "check" {
		fmt.Println("usage: verifctl check <ID> [--tier quick|thorough] | verifctl replay <file>")
		os.Exit(2)
	}
	id := os.Args[2]
	tier := os.Getenv("VERIF_TIER")
	for i := 3; i < len(os.Args); i++ {
		if os.Args[i] == "--tier" && i+1 < len(os.Args) {
			tier = os.Args[i+1]
		}
	}
	if tier == "" {
		tier = "quick"
	}
	e, ok := registry[id]
	if !ok {
		fmt.Println("unknown check", id)
		os.Exit(2)
	}
	os.Exit(vf.RunCheck(id, tier, e.level, e.run))
}
