package vf

import (
	"encoding/json"
	"fmt"
	"os"
	"path/filepath"
	"sort"
	"strings"
	"time"
)

// Finding is one entry of /verif/known_findings.json (committed, never written at run time).
type Finding struct {
	ID       string   `json:"id"`       // KFnn: the name of the deviation flag in the specification
	Property string   `json:"property"` // property it violates
	Status   string   `json:"status"`   // "open" (recorded, not repaired) | "fixed"
	What     string   `json:"what"`
	Input    any      `json:"input,omitempty"`  // the specific failing input / program / history
	Commit   string   `json:"commit,omitempty"` // for fixed entries
	Also     []string `json:"also,omitempty"`   // other properties whose checks meet the same defect
}

type KnownFindings struct {
	Findings []Finding `json:"findings"`
}

func LoadKnown() *KnownFindings {
	k := &KnownFindings{}
	data, err := os.ReadFile(filepath.Join(VerifDir(), "known_findings.json"))
	if err != nil {
		return k
	}
	if err := json.Unmarshal(data, k); err != nil {
		Machinery("known_findings.json: %v", err)
	}
	return k
}

// Open reports whether flag id is an open known finding relevant for property prop.
func (k *KnownFindings) Open(id, prop string) bool {
	for _, f := range k.Findings {
		if f.ID == id && f.Status == "open" {
			if f.Property == prop {
				return true
			}
			for _, a := range f.Also {
				if a == prop {
					return true
				}
			}
		}
	}
	return false
}

// OpenFlags returns the ids of all open findings (the as-built flags the spec switches on).
func (k *KnownFindings) OpenFlags() []string {
	var out []string
	for _, f := range k.Findings {
		if f.Status == "open" {
			out = append(out, f.ID)
		}
	}
	sort.Strings(out)
	return out
}

func (k *KnownFindings) Get(id string) *Finding {
	for i := range k.Findings {
		if k.Findings[i].ID == id {
			return &k.Findings[i]
		}
	}
	return nil
}

// Check is the context of one check run.
type Check struct {
	ID    string // property id
	Tier  string
	Seed  int64
	Level string // evidence level
	S     *Scratch
	KF    *KnownFindings
	start time.Time

	Cov         map[string]any
	Assumptions []string
	samples     []any
	violations  int
	replays     int
	known       map[string]*knownAgg
	notes       []string
}

type knownAgg struct {
	n       int
	example string
}

func NewCheck(id, tier, level string) *Check {
	c := &Check{ID: id, Tier: tier, Seed: Seed(), Level: level, KF: LoadKnown(), start: time.Now(),
		Cov: map[string]any{}, known: map[string]*knownAgg{}}
	c.S = NewScratch(id)
	return c
}

func (c *Check) Quick() bool { return c.Tier != "thorough" }

// Sample records an actual case of this run for the evidence file (a handful is kept).
func (c *Check) Sample(v any) {
	if len(c.samples) < 6 {
		c.samples = append(c.samples, v)
	}
}

func (c *Check) Add(key string, n int64) {
	if v, ok := c.Cov[key].(int64); ok {
		c.Cov[key] = v + n
	} else {
		c.Cov[key] = n
	}
}

func (c *Check) Note(format string, a ...any) {
	s := fmt.Sprintf(format, a...)
	fmt.Println(s)
	c.notes = append(c.notes, s)
}

// Violation reports a reproduced divergence of the real code from the
// specification: writes a replay file and prints the VIOLATION line (at most 8
// per run are written out; all are counted).
func (c *Check) Violation(replay any, summary string) {
	c.violations++
	if replay == nil || c.replays >= 8 {
		return
	}
	c.replays++
	dir := envOr("VERIF_REPLAY_DIR", filepath.Join(VerifDir(), "replays"))
	os.MkdirAll(dir, 0o755)
	path := filepath.Join(dir, fmt.Sprintf("%s-%s-seed%d-%d.json", c.ID, c.Tier, c.Seed, c.replays))
	data, _ := json.MarshalIndent(map[string]any{"property": c.ID, "summary": summary, "case": replay}, "", " ")
	os.WriteFile(path, data, 0o644)
	fmt.Printf("VIOLATION property=%s replay=%s\n", c.ID, path)
	fmt.Printf("  %s\n", Trunc(summary, 600))
}

// Known records a divergence that is exactly the as-built behaviour named by
// an open known finding.
func (c *Check) Known(flag string, example string) {
	a := c.known[flag]
	if a == nil {
		a = &knownAgg{example: example}
		c.known[flag] = a
	}
	a.n++
}

func (c *Check) Violations() int { return c.violations }

// Finish writes the evidence file, prints known findings and returns the exit code.
func (c *Check) Finish() int {
	flags := []string{}
	for f := range c.known {
		flags = append(flags, f)
	}
	sort.Strings(flags)
	kf := map[string]any{}
	for _, f := range flags {
		fi := c.KF.Get(f)
		what := ""
		if fi != nil {
			what = fi.What
		}
		fmt.Printf("KNOWN-FINDING: property=%s %s %s cases=%d e.g. %s\n", c.ID, f, what, c.known[f].n, Trunc(c.known[f].example, 300))
		kf[f] = c.known[f].n
	}
	c.Cov["samples"] = c.samples
	if len(c.samples) == 0 {
		c.Cov["samples"] = []any{"(no case was explored)"}
	}
	if len(kf) > 0 {
		c.Cov["known_findings_matched"] = kf
	}
	if len(c.notes) > 0 {
		c.Cov["notes"] = c.notes
	}
	ev := map[string]any{
		"property_id": c.ID,
		"tier":        c.Tier,
		"seed":        c.Seed,
		"level":       c.Level,
		"coverage":    c.Cov,
		"assumptions": c.Assumptions,
		"wall_s":      time.Since(c.start).Seconds(),
		"violations":  c.violations,
	}
	if c.Assumptions == nil {
		ev["assumptions"] = []string{}
	}
	dir := envOr("VERIF_EVIDENCE_DIR", filepath.Join(VerifDir(), "evidence")) // overridden when trying seeded changes
	os.MkdirAll(dir, 0o755)
	data, err := json.MarshalIndent(ev, "", " ")
	Must(err)
	Must(os.WriteFile(filepath.Join(dir, c.ID+".json"), append(data, '\n'), 0o644))
	c.S.Close()
	if c.violations > 0 {
		fmt.Printf("RESULT property=%s tier=%s violations=%d wall=%.1fs\n", c.ID, c.Tier, c.violations, time.Since(c.start).Seconds())
		return ExitViolation
	}
	fmt.Printf("RESULT property=%s tier=%s OK wall=%.1fs %s\n", c.ID, c.Tier, time.Since(c.start).Seconds(), covSummary(c.Cov))
	return ExitOK
}

func covSummary(cov map[string]any) string {
	var parts []string
	for _, k := range []string{"states", "transitions", "programs", "evaluations", "distinct_nontrivial", "traces_validated_against_impl", "disagreements_checked"} {
		if v, ok := cov[k]; ok {
			parts = append(parts, fmt.Sprintf("%s=%v", k, v))
		}
	}
	return strings.Join(parts, " ")
}

// RunCheck wraps a check body: machinery aborts become exit 2 (never a violation).
func RunCheck(id, tier, level string, body func(c *Check)) (code int) {
	c := NewCheck(id, tier, level)
	defer func() {
		if r := recover(); r != nil {
			c.S.Close()
			if _, ok := r.(machineryAbort); ok {
				code = ExitMachinery
				return
			}
			fmt.Printf("MACHINERY-ERROR: harness panic: %v\n", r)
			code = ExitMachinery
			panic(r)
		}
	}()
	body(c)
	return c.Finish()
}
