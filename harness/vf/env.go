// Package vf is the shared infrastructure of the go-co verification harness:
// scratch directories, the Go build environment, running TLC, evidence files,
// known findings and verdicts.
package vf

import (
	"fmt"
	"os"
	"os/exec"
	"path/filepath"
	"strconv"
	"strings"
	"time"
)

// Exit codes of every check (DESIGN.md section 6).
const (
	ExitOK        = 0
	ExitViolation = 1
	ExitMachinery = 2
)

// Machinery aborts the check with exit code 2: a problem of the verification
// machinery itself (TLC error, spec != native, renderer bug, driver died).
// It is never reported as a violation of a property.
func Machinery(format string, a ...any) {
	fmt.Printf("MACHINERY-ERROR: "+format+"\n", a...)
	panic(machineryAbort{})
}

type machineryAbort struct{}

func Must(err error) {
	if err != nil {
		Machinery("%v", err)
	}
}

func envOr(k, d string) string {
	if v := os.Getenv(k); v != "" {
		return v
	}
	return d
}

func VerifDir() string { return envOr("VERIF_DIR", "/verif") }
func RepoDir() string  { return envOr("VERIF_REPO", "/repo") }

func Seed() int64 {
	n, err := strconv.ParseInt(envOr("VERIF_SEED", "1"), 10, 64)
	if err != nil {
		return 1
	}
	return n
}

// Scratch is a per-run directory outside /repo and /verif holding TLC metadata,
// generated Go modules and a private Go build cache. It is removed on Close.
type Scratch struct {
	Dir     string
	GoCache string
	n       int
}

func NewScratch(id string) *Scratch {
	base := envOr("VERIF_SCRATCH", "/var/tmp")
	dir := filepath.Join(base, fmt.Sprintf("verif-%s-%d-%d", id, os.Getpid(), time.Now().UnixNano()%1000000))
	Must(os.MkdirAll(dir, 0o755))
	s := &Scratch{Dir: dir, GoCache: filepath.Join(dir, "gocache")}
	// seed the private build cache from the base cache built by setup_cmd (standard
	// library and go-co's dependencies); every rendered package is unique, so a shared
	// cache would only grow.
	basecache := filepath.Join(VerifDir(), ".cache", "gobase")
	if _, err := os.Stat(basecache); err == nil {
		if out, err := exec.Command("cp", "-a", basecache, s.GoCache).CombinedOutput(); err != nil {
			Machinery("seeding go cache: %v %s", err, out)
		}
	} else {
		Must(os.MkdirAll(s.GoCache, 0o755))
	}
	return s
}

func (s *Scratch) Close() {
	if os.Getenv("VERIF_KEEP_SCRATCH") != "" {
		fmt.Println("scratch kept:", s.Dir)
		return
	}
	// the module cache marks files read-only; the build cache does not, but be safe
	exec.Command("chmod", "-R", "u+w", s.Dir).Run()
	os.RemoveAll(s.Dir)
}

// Sub returns a fresh sub directory of the scratch directory.
func (s *Scratch) Sub(name string) string {
	s.n++
	d := filepath.Join(s.Dir, fmt.Sprintf("%s-%d", name, s.n))
	Must(os.MkdirAll(d, 0o755))
	return d
}

// GoEnv is the environment for every go command: offline, local toolchain,
// private build cache.
func (s *Scratch) GoEnv(extra ...string) []string {
	env := []string{}
	for _, kv := range os.Environ() {
		k := strings.SplitN(kv, "=", 2)[0]
		switch k {
		case "GOFLAGS", "GOPROXY", "GOSUMDB", "GOTOOLCHAIN", "GOCACHE", "GOWORK":
			continue
		}
		env = append(env, kv)
	}
	env = append(env, "GOFLAGS=-mod=mod", "GOPROXY=off", "GOSUMDB=off", "GOTOOLCHAIN=local", "GOWORK=off", "GOCACHE="+s.GoCache)
	return append(env, extra...)
}

// Run executes a command in dir with the Go environment and returns combined output.
func (s *Scratch) Run(dir string, extraEnv []string, name string, args ...string) (string, error) {
	cmd := exec.Command(name, args...)
	cmd.Dir = dir
	cmd.Env = s.GoEnv(extraEnv...)
	out, err := cmd.CombinedOutput()
	return string(out), err
}

// RunIO executes a command feeding stdin and returning stdout; stderr is returned separately.
func (s *Scratch) RunIO(dir string, extraEnv []string, stdin string, timeout time.Duration, name string, args ...string) (stdout, stderr string, err error) {
	cmd := exec.Command(name, args...)
	cmd.Dir = dir
	cmd.Env = s.GoEnv(extraEnv...)
	cmd.Stdin = strings.NewReader(stdin)
	var so, se strings.Builder
	cmd.Stdout = &so
	cmd.Stderr = &se
	if err = cmd.Start(); err != nil {
		return
	}
	done := make(chan error, 1)
	go func() { done <- cmd.Wait() }()
	select {
	case err = <-done:
	case <-time.After(timeout):
		cmd.Process.Kill()
		<-done
		err = fmt.Errorf("timeout after %v", timeout)
	}
	return so.String(), se.String(), err
}

// WriteModule creates go.mod / go.sum of a scratch module that depends on the
// go-co working tree under test.
func (s *Scratch) WriteModule(dir, module string) {
	repo := RepoDir()
	gomod := "module " + module + "\n\ngo 1.23\n\nrequire github.com/goghcrow/go-co v0.0.0\n\nreplace github.com/goghcrow/go-co => " + repo + "\n"
	Must(os.WriteFile(filepath.Join(dir, "go.mod"), []byte(gomod), 0o644))
	sum, err := os.ReadFile(filepath.Join(repo, "go.sum"))
	Must(err)
	Must(os.WriteFile(filepath.Join(dir, "go.sum"), sum, 0o644))
}

func Trunc(s string, n int) string {
	if len(s) <= n {
		return s
	}
	return s[:n] + "…"
}
