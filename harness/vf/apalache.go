package vf

import (
	"os"
	"os/exec"
	"path/filepath"
	"strings"
	"time"
)

// RunApalache checks an (inductive) invariant with Apalache in a scratch copy of
// the spec directory; returns true when the tool reports EXITCODE: OK.
func (s *Scratch) RunApalache(module string, args ...string) (bool, string) {
	work := s.Sub("apalache")
	specDir := filepath.Join(VerifDir(), "spec")
	ents, err := os.ReadDir(specDir)
	Must(err)
	for _, e := range ents {
		if strings.HasSuffix(e.Name(), ".tla") {
			data, err := os.ReadFile(filepath.Join(specDir, e.Name()))
			Must(err)
			Must(os.WriteFile(filepath.Join(work, e.Name()), data, 0o644))
		}
	}
	a := append([]string{"check"}, args...)
	a = append(a, module+".tla")
	cmd := exec.Command("apalache-mc", a...)
	cmd.Dir = work
	done := make(chan struct{})
	var out []byte
	go func() { out, err = cmd.CombinedOutput(); close(done) }()
	select {
	case <-done:
	case <-time.After(5 * time.Minute):
		cmd.Process.Kill()
		<-done
		return false, "apalache timed out"
	}
	o := string(out)
	return strings.Contains(o, "EXITCODE: OK"), o
}
