package vf

import (
	"bufio"
	"encoding/json"
	"fmt"
	"os"
	"os/exec"
	"path/filepath"
	"regexp"
	"runtime"
	"strconv"
	"strings"
	"sync"
	"time"
)

// TLCRun describes one TLC invocation on a module of /verif/spec.
type TLCRun struct {
	Module   string            // e.g. "MC_Seq" (file MC_Seq.tla)
	Cfg      string            // cfg file name in /verif/spec (template); constants may be overridden
	Consts   map[string]string // NAME -> value overriding `NAME = ...` lines of the cfg
	Env      []string          // extra environment (IOEnv variables)
	Timeout  time.Duration
	Workers  int
	Simulate string // e.g. "num=100" => -simulate; with Depth
	Depth    int
	Coverage bool
	Seed     int64
	OnCase   func(raw []byte) // called for every JSON line printed by the spec (PrintT(ToJson(..)))
	Extra    []string         // extra files (path) copied next to the spec (traces)
}

type TLCResult struct {
	Generated, Distinct int64
	Depth               int
	Cases               int64
	Completed           bool   // "Model checking completed. No error has been found."
	Violated            string // name of a violated invariant / property, or first "Error:" line
	Tail                string // last lines of the output (diagnostics)
	Wall                time.Duration
	ZeroCoverage        []string // coverage lines with count 0 (only with Coverage)
}

var (
	reStates = regexp.MustCompile(`^(\d+) states generated, (\d+) distinct states found`)
	reDepth  = regexp.MustCompile(`^The depth of the complete state graph search is (\d+)`)
	reCfgC   = regexp.MustCompile(`^(\s*)([A-Za-z_][A-Za-z0-9_]*)\s*=\s*(.*)$`)
)

// overrideConsts rewrites `NAME = value` lines of a cfg.
func overrideConsts(cfg string, consts map[string]string) string {
	if len(consts) == 0 {
		return cfg
	}
	seen := map[string]bool{}
	lines := strings.Split(cfg, "\n")
	for i, ln := range lines {
		if m := reCfgC.FindStringSubmatch(ln); m != nil {
			if v, ok := consts[m[2]]; ok {
				lines[i] = m[1] + m[2] + " = " + v
				seen[m[2]] = true
			}
		}
	}
	for k := range consts {
		if !seen[k] {
			Machinery("cfg has no constant %s to override", k)
		}
	}
	return strings.Join(lines, "\n")
}

// RunTLC runs TLC in a scratch copy of the spec directory. It never decides a
// verdict: the caller looks at Completed / Violated.
func (s *Scratch) RunTLC(r TLCRun) *TLCResult {
	start := time.Now()
	work := s.Sub("tlc")
	specDir := filepath.Join(VerifDir(), "spec")
	ents, err := os.ReadDir(specDir)
	Must(err)
	for _, e := range ents {
		if strings.HasSuffix(e.Name(), ".tla") {
			data, err := os.ReadFile(filepath.Join(specDir, e.Name()))
			Must(err)
			Must(os.WriteFile(filepath.Join(work, e.Name()), data, 0o644))
		}
	}
	for _, x := range r.Extra {
		data, err := os.ReadFile(x)
		Must(err)
		Must(os.WriteFile(filepath.Join(work, filepath.Base(x)), data, 0o644))
	}
	cfgData, err := os.ReadFile(filepath.Join(specDir, r.Cfg))
	Must(err)
	cfg := overrideConsts(string(cfgData), r.Consts)
	Must(os.WriteFile(filepath.Join(work, "run.cfg"), []byte(cfg), 0o644))

	workers := r.Workers
	if workers == 0 {
		workers = runtime.NumCPU()
		if workers > 16 {
			workers = 16
		}
	}
	args := []string{"-workers", strconv.Itoa(workers), "-metadir", filepath.Join(work, "meta"), "-config", "run.cfg", "-noGenerateSpecTE"}
	if r.Simulate != "" {
		args = append(args, "-simulate", r.Simulate)
		if r.Depth > 0 {
			args = append(args, "-depth", strconv.Itoa(r.Depth))
		}
		if r.Seed != 0 {
			args = append(args, "-seed", strconv.FormatInt(r.Seed, 10))
		}
	}
	if r.Coverage {
		args = append(args, "-coverage", "1")
	}
	args = append(args, r.Module+".tla")
	timeout := r.Timeout
	if timeout == 0 {
		timeout = 10 * time.Minute
	}
	cmd := exec.Command("tlc", args...)
	cmd.Dir = work
	cmd.Env = append(os.Environ(), "JAVA_TOOL_OPTIONS=-Xss512m")
	cmd.Env = append(cmd.Env, r.Env...)
	stdout, err := cmd.StdoutPipe()
	Must(err)
	cmd.Stderr = cmd.Stdout
	Must(cmd.Start())
	res := &TLCResult{}
	var tail []string
	var mu sync.Mutex
	done := make(chan struct{})
	go func() {
		defer close(done)
		sc := bufio.NewScanner(stdout)
		sc.Buffer(make([]byte, 1<<20), 1<<28)
		for sc.Scan() {
			line := sc.Text()
			if strings.HasPrefix(line, `"{`) {
				var inner string
				if err := json.Unmarshal([]byte(line), &inner); err == nil {
					res.Cases++
					if r.OnCase != nil {
						r.OnCase([]byte(inner))
					}
					continue
				}
			}
			mu.Lock()
			tail = append(tail, line)
			if len(tail) > 60 {
				tail = tail[len(tail)-60:]
			}
			mu.Unlock()
			if m := reStates.FindStringSubmatch(line); m != nil {
				res.Generated, _ = strconv.ParseInt(m[1], 10, 64)
				res.Distinct, _ = strconv.ParseInt(m[2], 10, 64)
			} else if m := reDepth.FindStringSubmatch(line); m != nil {
				res.Depth, _ = strconv.Atoi(m[1])
			} else if strings.HasPrefix(line, "Model checking completed. No error has been found.") {
				res.Completed = true
			} else if strings.HasPrefix(line, "Error:") && res.Violated == "" {
				res.Violated = line
			} else if r.Coverage && strings.HasSuffix(line, ": 0") && strings.Contains(line, "line ") {
				res.ZeroCoverage = append(res.ZeroCoverage, strings.TrimSpace(line))
			}
		}
	}()
	timer := time.AfterFunc(timeout, func() { cmd.Process.Kill() })
	<-done
	werr := cmd.Wait()
	if !timer.Stop() {
		res.Violated = fmt.Sprintf("TLC timed out after %v", timeout)
		res.Completed = false
	}
	if r.Simulate != "" && werr == nil && res.Violated == "" {
		res.Completed = true
	}
	res.Tail = strings.Join(tail, "\n")
	res.Wall = time.Since(start)
	if os.Getenv("VERIF_KEEP_SCRATCH") == "" {
		os.RemoveAll(filepath.Join(work, "meta"))
	}
	return res
}

// MustComplete aborts with a machinery error unless TLC finished without error.
func (t *TLCResult) MustComplete(what string) {
	if !t.Completed || t.Violated != "" {
		Machinery("TLC run %s did not complete cleanly: %s\n%s", what, t.Violated, t.Tail)
	}
}
