#!/bin/sh
# Builds the verification framework offline from files on disk:
#   bin/verifctl           the orchestrator
#   .cache/gobase          a Go build cache holding the standard library and go-co's
#                          dependencies; every check copies it into its private scratch cache
set -e
cd "$(dirname "$0")"
export GOFLAGS=-mod=mod GOPROXY=off GOSUMDB=off GOTOOLCHAIN=local GOWORK=off
mkdir -p bin .cache
(cd harness && go build -o ../bin/verifctl ./cmd/verifctl)
rm -rf .cache/gobase .cache/seedmod
mkdir -p .cache/seedmod/cmd/seed
REPO="${VERIF_REPO:-/repo}"
cat > .cache/seedmod/go.mod <<EOM
module scratch

go 1.23

require github.com/goghcrow/go-co v0.0.0

replace github.com/goghcrow/go-co => $REPO
EOM
cp "$REPO/go.sum" .cache/seedmod/go.sum
cat > .cache/seedmod/cmd/seed/main.go <<'EOM'
package main

import (
	"bufio"
	"crypto/sha256"
	"encoding/json"
	"fmt"
	"iter"
	"os"
	"reflect"
	"runtime"
	"sort"
	"strconv"
	"strings"
	"sync"
	"time"
	"unicode/utf8"

	"github.com/goghcrow/go-co/rewriter"
	"github.com/goghcrow/go-co/seq"
)

var _ = bufio.NewReader
var _ = sha256.New
var _ = json.Marshal
var _ iter.Seq[int]
var _ = reflect.TypeOf
var _ = runtime.GC
var _ = sort.Ints
var _ = strconv.Itoa
var _ = strings.Join
var _ sync.Mutex
var _ = time.Now
var _ = utf8.RuneError
var _ = seq.Normal[int]

func main() {
	fmt.Println(os.Args)
	rewriter.GoGen(os.Args[1])
}
EOM
(cd .cache/seedmod && GOCACHE="$PWD/../gobase" go build -o /dev/null ./cmd/seed && GOCACHE="$PWD/../gobase" go build -race -o /dev/null ./cmd/seed)
rm -rf .cache/seedmod
echo "setup ok: $(du -sh .cache/gobase | cut -f1) base cache"
